// C10 harness for the real Context / RuntimeContext / Token / Scope / Tracer::GetCurrentSpan
// (header-only API, built against /repo's current sources in TWO flavours: ASan+UBSan, whose quarantine never
// hands a freed address out again, and plain -O1, where freed memory IS reused at once - see "allocator"
// below).  Two modes:
//
//   replay <behaviours.ndjson>
//       Each line is a behaviour printed by TLC from spec/Context.tla (plus the concretisation
//       choice made by tools/props/C10.py): every step is performed on the real objects by the OS
//       thread the spec names (worker threads run in lock step), and after EVERY step
//         * every thread's RuntimeContext::GetCurrent() identity,
//         * every thread's Tracer::GetCurrentSpan(),
//         * GetValue / HasKey of EVERY key on EVERY context created so far,
//         * the boolean returned by Detach
//       are compared with the expectation computed by the spec.  `Drop` steps destroy the harness's
//       handle to a context (the real object dies when nothing else refers to it); only LIVE handles
//       are re-read.  Token OBJECTS have their own lifetime: `Attach` stores the unique_ptr<Token> under
//       the spec's token id, `Detach` uses exactly that object (it stays alive: it may be stale later),
//       `TokenDtor` destroys it on the thread the spec names (the destructor detaches).  One JSON result line per behaviour.  A watchdog (C10_WATCHDOG_S, default 20 s
//       per behaviour) turns a hang of the real code into a {"hang":true,"step":i} line + exit 3.
//
//   record <seed> <nexec> <nthreads> <maxops> <nk>
//       Several OS threads run independent seeded random programs CONCURRENTLY (deep stacks, up to
//       `maxops` operations each, out-of-order detach, foreign tokens, re-attached contexts, scopes).
//       Every call is logged with its arguments and results in the vocabulary of
//       spec/ContextTrace.tla, which decides whether the log is a behaviour of the spec.
//       The full GetValue table is re-read after every step; it is logged delta-encoded (an entry
//       per (context,key) whose answer differs from what was logged before - for a correct
//       implementation exactly the new context's row).
//
// Allocator (plain flavour only): a program must behave the same whatever addresses the allocator hands
// out.  The plain build replaces operator new/delete: every allocation made INSIDE a call of the API under
// test (ApiSection) is served from LIFO free lists per size class that are shared by all threads, so the
// object created next gets the address of the same-sized object destroyed last (what glibc's tcache does
// within one thread, made deterministic and independent of the harness's own allocations, which go to
// malloc).  C10_ALLOC=libc switches the free lists off (plain glibc behaviour).
//
// Only the public API is used.  Concretisation tables (keys, values, spans) are documented in
// design_notes/C10.md.  Caller-buffer discipline: every key lives in a heap buffer without NUL
// terminator that is overwritten and freed right after the call.
#include "opentelemetry/baggage/baggage.h"
#include "opentelemetry/context/context.h"
#include "opentelemetry/context/runtime_context.h"
#include "opentelemetry/trace/context.h"
#include "opentelemetry/trace/default_span.h"
#include "opentelemetry/trace/scope.h"
#include "opentelemetry/trace/span_context.h"
#include "opentelemetry/trace/tracer.h"

#include <nlohmann/json.hpp>

#include <atomic>
#include <chrono>
#include <unistd.h>
#include <condition_variable>
#include <cstring>
#include <fstream>
#include <functional>
#include <iostream>
#include <map>
#include <memory>
#include <mutex>
#include <random>
#include <thread>
#include <unordered_map>
#include <vector>

using json = nlohmann::json;

// ------------------------------------------------------------------ allocator (see the header comment)
#if defined(__SANITIZE_ADDRESS__)
struct ApiSection
{};
static const char *kFlavour = "asan";
#else
#  include <cstdlib>
#  include <new>
namespace lifo
{
static const uint64_t kPool = 0x504f4f4c4c49464full, kLibc = 0x4c4942434c494243ull;
struct Hdr
{
  uint64_t magic;
  uint64_t cls;
};
static const size_t kClasses = 65;  // class i: requests of (16 * (i - 1), 16 * i] bytes, i <= 64
static void *g_head[kClasses];
static std::atomic_flag g_lock = ATOMIC_FLAG_INIT;
static thread_local int t_api  = 0;
static int g_mode              = -1;  // 1 = LIFO free lists, 0 = libc only
static bool enabled()
{
  if (g_mode < 0)
  {
    const char *e = getenv("C10_ALLOC");
    g_mode        = (e && std::strcmp(e, "libc") == 0) ? 0 : 1;
  }
  return g_mode == 1;
}
static void *get(size_t n)
{
  size_t cls = (n + 15) / 16;
  if (cls == 0)
    cls = 1;
  if (t_api > 0 && cls < kClasses && enabled())
  {
    while (g_lock.test_and_set(std::memory_order_acquire))
    {}
    void *p = g_head[cls];
    if (p)
      g_head[cls] = *static_cast<void **>(p);
    g_lock.clear(std::memory_order_release);
    if (p)
      return p;  // (its header is still in place)
    Hdr *h = static_cast<Hdr *>(std::malloc(sizeof(Hdr) + cls * 16));
    if (!h)
      abort();
    h->magic = kPool;
    h->cls   = cls;
    return h + 1;
  }
  Hdr *h = static_cast<Hdr *>(std::malloc(sizeof(Hdr) + (n ? n : 1)));
  if (!h)
    abort();
  h->magic = kLibc;
  h->cls   = 0;
  return h + 1;
}
static void put(void *p)
{
  if (!p)
    return;
  Hdr *h = static_cast<Hdr *>(p) - 1;
  if (h->magic == kPool)
  {
    while (g_lock.test_and_set(std::memory_order_acquire))
    {}
    *static_cast<void **>(p) = g_head[h->cls];
    g_head[h->cls]           = p;
    g_lock.clear(std::memory_order_release);
  }
  else if (h->magic == kLibc)
  {
    h->magic = 0;
    std::free(h);
  }
  else
  {
    abort();  // not ours / double free
  }
}
}  // namespace lifo
void *operator new(size_t n) { return lifo::get(n); }
void *operator new[](size_t n) { return lifo::get(n); }
void *operator new(size_t n, const std::nothrow_t &) noexcept { return lifo::get(n); }
void *operator new[](size_t n, const std::nothrow_t &) noexcept { return lifo::get(n); }
void operator delete(void *p) noexcept { lifo::put(p); }
void operator delete[](void *p) noexcept { lifo::put(p); }
void operator delete(void *p, size_t) noexcept { lifo::put(p); }
void operator delete[](void *p, size_t) noexcept { lifo::put(p); }
void operator delete(void *p, const std::nothrow_t &) noexcept { lifo::put(p); }
void operator delete[](void *p, const std::nothrow_t &) noexcept { lifo::put(p); }
// RAII marker: the code inside is a call of the API under test
struct ApiSection
{
  ApiSection() { ++lifo::t_api; }
  ~ApiSection() { --lifo::t_api; }
  ApiSection(const ApiSection &)            = delete;
  ApiSection &operator=(const ApiSection &) = delete;
};
static const char *kFlavour = "plain";
#endif
namespace ctxapi = opentelemetry::context;
namespace trace  = opentelemetry::trace;
namespace nostd  = opentelemetry::nostd;
using ctxapi::Context;
using ctxapi::ContextValue;
using ctxapi::RuntimeContext;
using ctxapi::Token;

// ------------------------------------------------------------------ concretisation tables
static const int kMaxKeys = 16;

// key index 1..16, table variant 0..3; key 1 is always trace::kSpanKey
static std::string KeyBytes(int k, int variant)
{
  if (k == 1)
    return std::string(trace::kSpanKey);
  switch (variant & 3)
  {
    case 0:
      return "k" + std::to_string(k);
    case 1: {  // prefix / suffix / case relatives of the span key and of each other
      static const char *fam[] = {"active_spa", "active_span2", "active_spaN", "Active_span",
                                  "active_span ", "a"};
      if (k - 2 < 6)
        return fam[k - 2];
      return std::string("active_span") + std::string(static_cast<size_t>(k - 7), '_') + "!";
    }
    case 2: {  // long keys that differ in a few bytes only
      std::string s(300, 'q');
      std::string d = std::to_string(k);
      size_t pos    = static_cast<size_t>((k * 17) % 280);
      s.replace(pos, d.size(), d);
      s[299] = static_cast<char>('A' + k);
      return s;
    }
    default: {  // embedded NUL bytes
      static const std::string fam[] = {std::string("a\0b", 3), std::string("a\0c", 3), std::string("a"),
                                        std::string("a\0", 2), std::string("\0", 1),
                                        std::string("\0\0", 2)};
      if (k - 2 < 6)
        return fam[k - 2];
      return std::string("z\0", 2) + std::string(static_cast<size_t>(k), 'y');
    }
  }
}

// A key in a short-lived heap buffer (no NUL terminator); overwritten and freed on destruction.
struct KeyBuf
{
  char *p;
  size_t n;
  explicit KeyBuf(const std::string &s) : p(new char[s.size() ? s.size() : 1]), n(s.size())
  {
    std::memcpy(p, s.data(), n);
  }
  nostd::string_view view() const { return nostd::string_view(p, n); }
  ~KeyBuf()
  {
    std::memset(p, '#', n ? n : 1);
    delete[] p;
  }
  KeyBuf(const KeyBuf &)            = delete;
  KeyBuf &operator=(const KeyBuf &) = delete;
};

struct Values
{
  int variant = 0;
  std::vector<nostd::shared_ptr<trace::Span>> spans;           // index s (1..)
  std::vector<nostd::shared_ptr<trace::SpanContext>> spanctx;  // plain value alternative
  std::vector<nostd::shared_ptr<opentelemetry::baggage::Baggage>> bags;  // plain value alternative
  Values()
  {
    spans.resize(64);
    for (int s = 1; s < 64; ++s)
    {
      uint8_t tid[16] = {0}, sid[8] = {0};
      tid[15]  = static_cast<uint8_t>(s);
      tid[0]   = 0xC1;
      sid[7]   = static_cast<uint8_t>(s);
      sid[0]   = 0x10;
      spans[s] = nostd::shared_ptr<trace::Span>(new trace::DefaultSpan(
          trace::SpanContext(trace::TraceId(tid), trace::SpanId(sid), trace::TraceFlags(s & 1), false)));
    }
    spanctx.resize(64);
    bags.resize(64);
    for (int v = 1; v < 64; ++v)
    {
      spanctx[v] = nostd::shared_ptr<trace::SpanContext>(new trace::SpanContext(false, false));
      bags[v]    = nostd::shared_ptr<opentelemetry::baggage::Baggage>(new opentelemetry::baggage::Baggage());
    }
  }
  ContextValue make(int v) const
  {
    if (v > 100)
      return ContextValue(spans[static_cast<size_t>(v - 100)]);
    if (v == 99)
      return ContextValue{};  // the EMPTY value (monostate): "clear a key"
    // every alternative of ContextValue: bool (values 1, 2 only), int64, uint64, double,
    // shared_ptr<SpanContext>, shared_ptr<Baggage>; shared_ptr<Span> is the 100+s range
    switch ((v + variant) % 6)
    {
      case 4:
        if (v <= 2)
          return ContextValue(v == 1);
        return ContextValue(static_cast<int64_t>(-(1000 + v)));
      case 5:
        return ContextValue(bags[static_cast<size_t>(v)]);
      case 0:
        return ContextValue(static_cast<int64_t>(-(1000 + v)));
      case 1:
        return ContextValue(static_cast<uint64_t>((1ull << 63) + static_cast<uint64_t>(v)));
      case 2:
        return ContextValue(static_cast<double>(v) + 0.25);
      default:
        return ContextValue(spanctx[static_cast<size_t>(v)]);
    }
  }
  // projection back to the abstract value; -1 = a value the table does not know
  int abs(const ContextValue &cv) const
  {
    if (nostd::holds_alternative<nostd::monostate>(cv))
      return 0;
    if (nostd::holds_alternative<bool>(cv))
      return nostd::get<bool>(cv) ? 1 : 2;
    if (nostd::holds_alternative<nostd::shared_ptr<opentelemetry::baggage::Baggage>>(cv))
    {
      auto &p = nostd::get<nostd::shared_ptr<opentelemetry::baggage::Baggage>>(cv);
      for (int v = 1; v < 64; ++v)
        if (bags[v].get() == p.get())
          return v;
      return -1;
    }
    if (nostd::holds_alternative<int64_t>(cv))
    {
      int64_t x = nostd::get<int64_t>(cv);
      return (x <= -1001 && x >= -1063) ? static_cast<int>(-x - 1000) : -1;
    }
    if (nostd::holds_alternative<uint64_t>(cv))
    {
      uint64_t x = nostd::get<uint64_t>(cv);
      return (x > (1ull << 63) && x < (1ull << 63) + 64) ? static_cast<int>(x - (1ull << 63)) : -1;
    }
    if (nostd::holds_alternative<double>(cv))
    {
      double x = nostd::get<double>(cv) - 0.25;
      int v    = static_cast<int>(x);
      return (v >= 1 && v < 64 && static_cast<double>(v) == x) ? v : -1;
    }
    if (nostd::holds_alternative<nostd::shared_ptr<trace::SpanContext>>(cv))
    {
      auto &p = nostd::get<nostd::shared_ptr<trace::SpanContext>>(cv);
      for (int v = 1; v < 64; ++v)
        if (spanctx[v].get() == p.get())
          return v;
      return -1;
    }
    if (nostd::holds_alternative<nostd::shared_ptr<trace::Span>>(cv))
    {
      auto &p = nostd::get<nostd::shared_ptr<trace::Span>>(cv);
      for (int s = 1; s < 64; ++s)
        if (spans[s].get() == p.get())
          return 100 + s;
      return -1;
    }
    return -1;
  }
  // Tracer::GetCurrentSpan() -> span index, 0 = the invalid default span, -1 = unknown
  int span_of(const nostd::shared_ptr<trace::Span> &sp) const
  {
    if (!sp)
      return -1;
    for (int s = 1; s < 64; ++s)
      if (spans[s].get() == sp.get())
        return s;
    return sp->GetContext().IsValid() ? -1 : 0;
  }
};

// ------------------------------------------------------------------ lock-step worker threads
class Worker
{
public:
  Worker() : th_([this] { loop(); }) {}
  ~Worker()
  {
    run([this] { stop_ = true; });
    th_.join();
  }
  void run(const std::function<void()> &f)
  {
    std::unique_lock<std::mutex> lk(m_);
    job_  = f;
    have_ = true;
    cv_.notify_all();
    cv_.wait(lk, [this] { return !have_; });
  }

private:
  void loop()
  {
    std::unique_lock<std::mutex> lk(m_);
    while (!stop_)
    {
      cv_.wait(lk, [this] { return have_; });
      job_();
      have_ = false;
      cv_.notify_all();
    }
  }
  std::mutex m_;
  std::condition_variable cv_;
  std::function<void()> job_;
  bool have_ = false;
  bool stop_ = false;
  std::thread th_;
};

// A hang of the code under test must not hang the check: after `seconds` without disarm() the
// callback prints what is known and the process leaves with status 3.
class Watchdog
{
public:
  std::atomic<long> id{-1}, step{-1};
  std::function<void()> on_fire;
  Watchdog()
  {
    const char *e = getenv("C10_WATCHDOG_S");
    seconds_      = e ? atol(e) : 20;
    std::thread([this] {
      for (;;)
      {
        std::this_thread::sleep_for(std::chrono::milliseconds(100));
        long d = deadline_.load();
        if (d != 0 && now() > d)
        {
          if (on_fire)
            on_fire();
          _exit(3);
        }
      }
    }).detach();
  }
  void arm(long i)
  {
    id   = i;
    step = -1;
    deadline_ = now() + seconds_ * 1000;
  }
  void disarm() { deadline_ = 0; }

private:
  static long now()
  {
    return static_cast<long>(std::chrono::duration_cast<std::chrono::milliseconds>(
                                 std::chrono::steady_clock::now().time_since_epoch())
                                 .count());
  }
  std::atomic<long> deadline_{0};
  long seconds_;
};
static Watchdog *g_wd = nullptr;

// identity of a context among the LIVE handles: (smallest matching id, number of matches)
static std::pair<int, int> Identify(const Context &c, const std::vector<Context> &known, const std::vector<char> &live)
{
  int first = -1, n = 0;
  for (size_t i = 0; i < known.size(); ++i)
    if (live[i] && known[i] == c)
    {
      if (first < 0)
        first = static_cast<int>(i);
      ++n;
    }
  return {first, n};
}

// ------------------------------------------------------------------ replay (spec -> code)
struct Mismatch
{
  int step;
  std::string what;
  json exp, got;
};

static bool ReplayOne(const json &beh, Mismatch &mm, long &checks)
{
  const int nt  = beh.at("nt").get<int>();
  const int nk  = beh.at("nk").get<int>();
  const int kv  = beh.value("kv", 0);
  uint64_t seed = beh.value("seed", 1ull);
  std::mt19937_64 rng(seed * 0x9E3779B97F4A7C15ull + 7);
  Values vals;
  vals.variant = beh.value("vv", 0);

  std::vector<Context> ctxs;  // index = spec id; 0 = the empty context
  std::vector<char> live;     // does the program still hold the handle ctxs[id]?
  ctxs.emplace_back();
  live.push_back(1);
  std::map<int, nostd::unique_ptr<Token>> toks;  // key = the spec's token id: token OBJECTS live until TokenDtor
  std::map<int, std::unique_ptr<trace::Scope>> scopes;
  bool ok = true;
  {
    std::vector<std::unique_ptr<Worker>> workers;
    for (int t = 0; t < nt; ++t)
      workers.emplace_back(new Worker());
    const json &steps = beh.at("steps");
    for (size_t i = 0; ok && i < steps.size(); ++i)
    {
      const json &st       = steps[i];
      const std::string op = st.at("op").get<std::string>();
      const int t          = st.at("t").get<int>();
      if (g_wd)
        g_wd->step = static_cast<long>(i);
      auto fail            = [&](const std::string &what, const json &e, const json &g) {
        if (ok)
        {
          ok = false;
          mm = Mismatch{static_cast<int>(i), what, e, g};
        }
      };
      workers[static_cast<size_t>(t - 1)]->run([&] {
        if (op == "SetValue")
        {
          Context parent = ctxs.at(st.at("c").get<size_t>());
          ContextValue v = vals.make(st.at("v").get<int>());
          Context made;
          {
            KeyBuf kb(KeyBytes(st.at("k").get<int>(), kv));
            int how = static_cast<int>(rng() % 3);
            if (how == 2 && !(RuntimeContext::GetCurrent() == parent))
              how = 0;
            ApiSection api;
            if (how == 0)
              made = parent.SetValue(kb.view(), v);
            else if (how == 1)
              made = RuntimeContext::SetValue(kb.view(), v, &parent);
            else
              made = RuntimeContext::SetValue(kb.view(), v);
          }
          ctxs.push_back(made);
          live.push_back(1);
        }
        else if (op == "SetValues")
        {
          Context parent = ctxs.at(st.at("c").get<size_t>());
          const json &m  = st.at("m");
          std::vector<std::pair<int, int>> kvs;
          for (size_t k = 0; k < m.size(); ++k)
            if (m[k].get<int>() != 0)
              kvs.emplace_back(static_cast<int>(k + 1), m[k].get<int>());
          std::shuffle(kvs.begin(), kvs.end(), rng);
          Context made;
          switch (rng() % 4)
          {
            case 0: {
              std::map<std::string, ContextValue> c;
              for (auto &e : kvs)
                c[KeyBytes(e.first, kv)] = vals.make(e.second);
              {
                ApiSection api;
                made = parent.SetValues(c);
              }
              for (auto &e : c)
                e.second = ContextValue(static_cast<int64_t>(-1));
              break;
            }
            case 1: {
              std::unordered_map<std::string, ContextValue> c;
              for (auto &e : kvs)
                c[KeyBytes(e.first, kv)] = vals.make(e.second);
              {
                ApiSection api;
                made = parent.SetValues(c);
              }
              for (auto &e : c)
                e.second = ContextValue(static_cast<int64_t>(-1));
              break;
            }
            case 2: {
              std::vector<std::pair<std::string, ContextValue>> c;
              for (auto &e : kvs)
                c.emplace_back(KeyBytes(e.first, kv), vals.make(e.second));
              {
                ApiSection api;
                made = parent.SetValues(c);
              }
              for (auto &e : c)
              {
                e.first.assign(e.first.size(), '#');
                e.second = ContextValue(static_cast<int64_t>(-1));
              }
              break;
            }
            default: {
              std::vector<std::unique_ptr<KeyBuf>> bufs;
              std::vector<std::pair<nostd::string_view, ContextValue>> c;
              for (auto &e : kvs)
              {
                bufs.emplace_back(new KeyBuf(KeyBytes(e.first, kv)));
                c.emplace_back(bufs.back()->view(), vals.make(e.second));
              }
              {
                ApiSection api;
                made = parent.SetValues(c);
              }
              break;
            }
          }
          ctxs.push_back(made);
          live.push_back(1);
        }
        else if (op == "Attach")
        {
          int c  = st.at("c").get<int>();
          int tk = st.at("tk").get<int>();
          if (toks.count(tk))
          {
            fail("harness: token id used twice", tk, nullptr);
            return;
          }
          nostd::unique_ptr<Token> made;
          {
            ApiSection api;
            made = RuntimeContext::Attach(ctxs.at(static_cast<size_t>(c)));
          }
          if (!made)
            fail("Attach returned a null token", 1, 0);
          toks[tk] = std::move(made);
        }
        else if (op == "Detach")
        {
          // exactly the token object the spec names; it stays alive (it may be used again, as a stale token)
          auto it = toks.find(st.at("tk").get<int>());
          if (it == toks.end())
          {
            fail("harness: no such token object", st.at("tk"), nullptr);
            return;
          }
          bool r;
          {
            ApiSection api;
            r = RuntimeContext::Detach(*it->second);
          }
          int e = st.at("ok").get<int>();
          ++checks;
          if (e != 2 && (e == 1) != r)
            fail("Detach result", e == 1, r);
        }
        else if (op == "TokenDtor")
        {
          // the program destroys the token object, on this thread: ~Token detaches
          auto it = toks.find(st.at("tk").get<int>());
          if (it == toks.end())
          {
            fail("harness: no such token object", st.at("tk"), nullptr);
            return;
          }
          nostd::unique_ptr<Token> victim = std::move(it->second);
          toks.erase(it);
          {
            ApiSection api;
            victim.reset();
          }
        }
        else if (op == "ScopeEnter")
        {
          int s   = st.at("v").get<int>() - 100;
          auto sp = vals.spans.at(static_cast<size_t>(s));
          auto &slot = scopes[st.at("n").get<int>()];
          {
            ApiSection api;
            if (rng() % 2)
              slot.reset(new trace::Scope(sp));
            else
              slot.reset(new trace::Scope(trace::Tracer::WithActiveSpan(sp)));
          }
          ctxs.push_back(RuntimeContext::GetCurrent());
          live.push_back(1);
        }
        else if (op == "ScopeExit")
        {
          auto it = scopes.find(st.at("c").get<int>());
          if (it == scopes.end())
          {
            fail("harness: no such scope", st.at("c"), nullptr);
            return;
          }
          std::unique_ptr<trace::Scope> victim = std::move(it->second);
          scopes.erase(it);
          {
            ApiSection api;
            victim.reset();
          }
        }
        else if (op == "Drop")
        {
          // the program lets go of its handle: the real object dies unless a stack slot, a token, a
          // scope or (through shared list nodes) nothing else keeps it
          size_t c = st.at("c").get<size_t>();
          {
            ApiSection api;
            ctxs.at(c) = Context();
          }
          live.at(c) = 0;
        }
        else if (op == "End")
        {
          // closing no-op step of a generated behaviour: only the observations are compared
        }
        else
        {
          fail("harness: unknown op " + op, nullptr, nullptr);
        }
      });
      if (!ok)
        break;
      // ---- observations: every thread reports its own current context and active span
      for (int u = 1; ok && u <= nt; ++u)
      {
        workers[static_cast<size_t>(u - 1)]->run([&] {
          Context cur = RuntimeContext::GetCurrent();
          auto id     = Identify(cur, ctxs, live);
          int ecur    = st.at("cur")[static_cast<size_t>(u - 1)].get<int>();
          ++checks;
          // a current context whose handle was dropped compares equal to no live handle
          bool held = live.at(static_cast<size_t>(ecur)) != 0;
          if (held ? (id.first != ecur || id.second != 1) : (id.second != 0))
            fail("GetCurrent() identity on thread " + std::to_string(u), held ? json(ecur) : json("none (handle dropped)"),
                 json{{"id", id.first}, {"matches", id.second}});
          int sp = vals.span_of(trace::Tracer::GetCurrentSpan());
          int es = st.at("span")[static_cast<size_t>(u - 1)].get<int>();
          ++checks;
          if (sp != es)
            fail("Tracer::GetCurrentSpan() on thread " + std::to_string(u), es, sp);
          int sp2 = vals.span_of(trace::GetSpan(cur));
          if (sp2 != es)
            fail("trace::GetSpan(GetCurrent()) on thread " + std::to_string(u), es, sp2);
          // the current context through RuntimeContext::GetValue(key)
          if (ecur > 0)
            for (int k = 1; k <= nk; ++k)
            {
              KeyBuf kb(KeyBytes(k, kv));
              int got = vals.abs(RuntimeContext::GetValue(kb.view()));
              int e   = st.at("tab")[static_cast<size_t>(ecur - 1)][static_cast<size_t>(k - 1)].get<int>();
              ++checks;
              if (got != e)
                fail("RuntimeContext::GetValue(key " + std::to_string(k) + ") on thread " + std::to_string(u), e,
                     got);
            }
        });
      }
      if (!ok)
        break;
      // ---- immutability: EVERY context created so far answers EVERY key as the spec says
      workers[static_cast<size_t>(t - 1)]->run([&] {
        const json &tab = st.at("tab");
        if (tab.size() + 1 != ctxs.size())
        {
          fail("number of contexts", tab.size(), ctxs.size() - 1);
          return;
        }
        const json &lv = st.at("live");
        for (size_t c = 1; ok && c < ctxs.size(); ++c)
        {
          if (lv[c - 1].get<bool>() != (live[c] != 0))
          {
            fail("harness: live-handle bookkeeping differs from the spec for context " + std::to_string(c), lv[c - 1],
                 live[c] != 0);
            return;
          }
          if (!live[c])
            continue;
          if (Identify(ctxs[c], ctxs, live) != std::make_pair(static_cast<int>(c), 1))
            fail("context " + std::to_string(c) + " is not a distinct identity", 1, Identify(ctxs[c], ctxs, live).second);
          for (int k = 1; ok && k <= nk; ++k)
          {
            KeyBuf kb(KeyBytes(k, kv));
            int e   = tab[c - 1][static_cast<size_t>(k - 1)].get<int>();
            int got = vals.abs(ctxs[c].GetValue(kb.view()));
            bool has = ctxs[c].HasKey(kb.view());
            checks += 2;
            if (got != e)
              fail("GetValue(key " + std::to_string(k) + ") on context " + std::to_string(c), e, got);
            else if (has != (e != 0))
              fail("HasKey(key " + std::to_string(k) + ") on context " + std::to_string(c), e != 0, has);
          }
        }
        // the empty context answers nothing
        for (int k = 1; ok && k <= nk; ++k)
        {
          KeyBuf kb(KeyBytes(k, kv));
          if (ctxs[0].HasKey(kb.view()))
            fail("HasKey on the empty context", false, true);
        }
      });
    }
    // scopes / tokens die before the worker threads (the order is irrelevant for the check)
    workers[0]->run([&] {
      ApiSection api;
      scopes.clear();
      toks.clear();
    });
  }
  return ok;
}

static int Replay(const char *path)
{
  g_wd          = new Watchdog();
  g_wd->on_fire = [] {
    std::cout << json{{"beh", g_wd->id.load()}, {"hang", true}, {"step", g_wd->step.load()}}.dump() << std::endl;
  };
  std::ifstream in(path);
  std::string line;
  while (std::getline(in, line))
  {
    if (line.empty())
      continue;
    json beh = json::parse(line);
    Mismatch mm{};
    long checks = 0;
    g_wd->arm(beh.at("id").get<long>());
    bool ok = ReplayOne(beh, mm, checks);
    g_wd->disarm();
    json out;
    out["beh"]    = beh.at("id");
    out["ok"]     = ok;
    out["checks"] = checks;
    out["steps"]  = beh.at("steps").size();
    if (!ok)
    {
      out["step"] = mm.step;
      out["what"] = mm.what;
      out["exp"]  = mm.exp;
      out["got"]  = mm.got;
    }
    std::cout << out.dump() << std::endl;
  }
  return 0;
}

// ------------------------------------------------------------------ record (code -> spec)
namespace rec
{
std::mutex g_log_m;
std::vector<std::string> g_log;  // merged, in ticket order
int g_next_id = 0;               // global context ids, assigned at log time (== spec's NCtx + 1)
int g_next_tok = 0;              // global token-object ids, assigned at log time (== spec's Len(tok) + 1)

struct Tok
{
  int ctx;  // global id of the context it was returned for
  int tk;   // global token id
  nostd::unique_ptr<Token> p;
};

struct Known
{
  Context ctx;
  int id;                     // global id (0 = empty)
  std::vector<int> lastvals;  // last logged answers, index k-1; -2 = never logged
  bool dead = false;          // handle dropped (ctx reset): never looked at again
};

struct Prog
{
  int t;
  int nk, kv;
  Values *vals;
  std::mt19937_64 rng;
  std::vector<Known> known;  // pool + own
  size_t npool = 0;          // known[0..npool) are copies of the shared pool (never dropped)
  std::vector<Tok> toks;        // own token objects: kept after Detach (stale), destroyed by TokenDtor steps
  std::vector<Tok *> foreign;   // token objects owned by the main thread
  std::vector<int> script;      // pending steps of a stale-token pattern (see step())
  int script_tk = 0, script_ctx = 0;
  std::vector<std::pair<int, std::unique_ptr<trace::Scope>>> scopes;
  int depth_est = 0;

  int pick(size_t n) { return static_cast<int>(rng() % n); }

  // observation + logging of one event; `creates`: index in `known` of the context created by the step,
  // `newtok`: the token object created by the step
  void log(json ev, int creates, Tok *newtok = nullptr)
  {
    // current context identity among everything this thread can know
    Context cur = RuntimeContext::GetCurrent();
    int first = -1, n = 0;
    for (auto &k : known)
      if (!k.dead && k.ctx == cur)
      {
        if (first < 0)
          first = static_cast<int>(&k - &known[0]);
        ++n;
      }
    json cv = json::array();  // the current context through RuntimeContext::GetValue(key)
    for (int key = 1; key <= nk; ++key)
    {
      KeyBuf kb(KeyBytes(key, kv));
      cv.push_back(vals->abs(RuntimeContext::GetValue(kb.view())));
    }
    std::lock_guard<std::mutex> lk(g_log_m);
    if (creates >= 0)
    {
      known[static_cast<size_t>(creates)].id = ++g_next_id;
      ev["n"]                                 = g_next_id;
    }
    if (newtok)
    {
      newtok->tk = ++g_next_tok;
      ev["tk"]   = newtok->tk;
    }
    ev["t"]    = t;
    ev["cur"]  = first < 0 ? 0 : known[static_cast<size_t>(first)].id;  // (0, 0): equal to no live handle
    ev["curn"] = n;
    ev["cv"]   = cv;
    ev["span"] = vals->span_of(trace::Tracer::GetCurrentSpan());
    // re-read the whole table; log what differs from the last logged answer
    json d = json::array();
    for (auto &k : known)
    {
      if (k.id == 0 || k.dead)
        continue;
      for (int key = 1; key <= nk; ++key)
      {
        KeyBuf kb(KeyBytes(key, kv));
        int got  = vals->abs(k.ctx.GetValue(kb.view()));
        bool has = k.ctx.HasKey(kb.view());
        if (has != (got != 0))
          got = -3;  // HasKey disagrees with GetValue: never a legal value
        if (k.lastvals[static_cast<size_t>(key - 1)] != got)
        {
          d.push_back(json::array({k.id, key, got}));
          k.lastvals[static_cast<size_t>(key - 1)] = got;
        }
      }
    }
    ev["d"] = d;
    g_log.push_back(ev.dump());
  }

  // a live handle (pool or own); there always is one (index 0 = the empty context)
  Known &pick_live()
  {
    for (;;)
    {
      Known &k = known[static_cast<size_t>(pick(known.size()))];
      if (!k.dead)
        return k;
    }
  }

  int add_known(const Context &c)
  {
    known.push_back(Known{c, -1, std::vector<int>(static_cast<size_t>(nk), -2)});
    return static_cast<int>(known.size() - 1);
  }

  // ---- the operations (each one real call + one logged event)
  void op_drop(size_t i)
  {
    Known &k = known[i];
    int id   = k.id;
    {
      ApiSection api;
      k.ctx = Context();
    }
    k.dead = true;
    log(json{{"e", "Drop"}, {"c", id}}, -1);
  }
  int op_setvalue(Known &par)
  {
    int pid = par.id;
    int k   = 1 + pick(static_cast<size_t>(nk));
    int v   = (pick(5) == 0) ? 100 + 1 + pick(6) : (pick(7) == 0 ? 99 : 1 + pick(12));
    Context made;
    {
      KeyBuf kb(KeyBytes(k, kv));
      Context parent = par.ctx;
      bool how       = pick(2) == 0;
      ApiSection api;
      made = how ? parent.SetValue(kb.view(), vals->make(v)) : RuntimeContext::SetValue(kb.view(), vals->make(v), &parent);
    }
    int idx = add_known(made);
    log(json{{"e", "SetValue"}, {"p", pid}, {"k", k}, {"v", v}}, idx);
    return idx;
  }
  void op_attach(Known &k)
  {
    int id = k.id;
    toks.reserve(toks.size() + 1);
    nostd::unique_ptr<Token> made;
    {
      ApiSection api;
      made = RuntimeContext::Attach(k.ctx);
    }
    toks.push_back(Tok{id, 0, std::move(made)});
    ++depth_est;
    log(json{{"e", "Attach"}, {"c", id}}, -1, &toks.back());
  }
  void op_detach(Tok &tk)
  {
    bool ok;
    {
      ApiSection api;
      ok = RuntimeContext::Detach(*tk.p);
    }
    log(json{{"e", "Detach"}, {"tk", tk.tk}, {"c", tk.ctx}, {"ok", ok ? 1 : 0}}, -1);
  }
  // the program destroys one of its token objects (attached, detached long ago, ...): ~Token detaches
  void op_tokdtor(size_t i)
  {
    Tok victim = std::move(toks[i]);
    toks.erase(toks.begin() + static_cast<long>(i));
    {
      ApiSection api;
      victim.p.reset();
    }
    log(json{{"e", "TokenDtor"}, {"tk", victim.tk}, {"c", victim.ctx}}, -1);
  }
  long find_tok(int tk) const
  {
    for (size_t i = 0; i < toks.size(); ++i)
      if (toks[i].tk == tk)
        return static_cast<long>(i);
    return -1;
  }
  long find_known(int id) const
  {
    for (size_t i = 0; i < known.size(); ++i)
      if (known[i].id == id && !known[i].dead)
        return static_cast<long>(i);
    return -1;
  }

  // A token object outlives what it was created for: [detach it,] drop every handle of its context
  // [or the other way round], create a NEW context right away (the same kind of allocation), attach
  // that one, and only then detach / destroy the old token object.  Plain operations, each logged; the
  // spec decides what every one of them must do (the old token is stale only if its context is on no
  // stack any more).
  enum { S_DETACH = 1, S_DROP, S_NEWCTX, S_FINAL };
  bool start_script()
  {
    std::vector<size_t> cand;  // own tokens whose context is an own context this thread still holds
    for (size_t i = 0; i < toks.size(); ++i)
    {
      long k = find_known(toks[i].ctx);
      if (k >= static_cast<long>(npool))
        cand.push_back(i);
    }
    if (cand.empty())
      return false;
    Tok &t     = toks[cand[static_cast<size_t>(pick(cand.size()))]];
    script_tk  = t.tk;
    script_ctx = t.ctx;
    switch (pick(3))
    {
      case 0:
        script = {S_FINAL, S_NEWCTX, S_DROP, S_DETACH};  // (executed from the back)
        break;
      case 1:
        script = {S_FINAL, S_NEWCTX, S_DETACH, S_DROP};
        break;
      default:
        script = {S_FINAL, S_NEWCTX, S_DROP};
        break;
    }
    return true;
  }
  void script_step()
  {
    int what = script.back();
    script.pop_back();
    long ti = find_tok(script_tk);
    if (ti < 0)
    {
      script.clear();
      return;
    }
    switch (what)
    {
      case S_DETACH:
        op_detach(toks[static_cast<size_t>(ti)]);
        break;
      case S_DROP: {
        long k = find_known(script_ctx);
        if (k >= static_cast<long>(npool))
          op_drop(static_cast<size_t>(k));
        break;
      }
      case S_NEWCTX: {
        int idx = op_setvalue(pick_live());
        op_attach(known[static_cast<size_t>(idx)]);
        break;
      }
      default:
        if (pick(2))
          op_detach(toks[static_cast<size_t>(ti)]);
        else
          op_tokdtor(static_cast<size_t>(ti));
        break;
    }
  }

  void step(bool grow)
  {
    if (!script.empty())
    {
      script_step();
      return;
    }
    int r = pick(112);
    // operation mix: while growing attaches dominate, afterwards detaches do
    int p_set = 18, p_sets = 8, p_att = grow ? 46 : 14, p_scope = grow ? 14 : 6, p_det = grow ? 6 : 40;
    if (r >= 108)
    {
      if (start_script())
        script_step();
      return;
    }
    if (r >= 100)
    {
      // drop the handle to one of this thread's own contexts - leaf, middle of a chain or root,
      // attached or not, scope context or not: whatever the seed says
      std::vector<size_t> own;
      for (size_t i = npool; i < known.size(); ++i)
        if (!known[i].dead)
          own.push_back(i);
      if (own.empty())
        return;
      op_drop(own[static_cast<size_t>(pick(own.size()))]);
      return;
    }
    if (r < p_set)
    {
      op_setvalue(pick_live());
    }
    else if (r < p_set + p_sets)
    {
      Known &par = pick_live();
      int pid    = par.id;
      int cnt    = pick(4);
      std::vector<int> keys;
      for (int k = 1; k <= nk; ++k)
        keys.push_back(k);
      std::shuffle(keys.begin(), keys.end(), rng);
      keys.resize(static_cast<size_t>(std::min(cnt, nk)));
      json m = json::array();
      std::vector<std::pair<std::string, ContextValue>> c;
      for (int k : keys)
      {
        int v = (pick(5) == 0) ? 100 + 1 + pick(6) : (pick(6) == 0 ? 99 : 1 + pick(12));
        m.push_back(json::array({k, v}));
        c.emplace_back(KeyBytes(k, kv), vals->make(v));
      }
      Context parent = par.ctx;
      Context made;
      if (pick(2))
      {
        ApiSection api;
        made = parent.SetValues(c);
      }
      else
      {
        std::map<std::string, ContextValue> mm(c.begin(), c.end());
        ApiSection api;
        made = parent.SetValues(mm);
      }
      for (auto &e : c)
        e.first.assign(e.first.size(), '#');
      int idx = add_known(made);
      log(json{{"e", "SetValues"}, {"p", pid}, {"m", m}}, idx);
    }
    else if (r < p_set + p_sets + p_att)
    {
      op_attach(pick_live());
    }
    else if (r < p_set + p_sets + p_att + p_scope)
    {
      int s = 1 + pick(6);
      std::unique_ptr<trace::Scope> sc;
      {
        ApiSection api;
        sc.reset(new trace::Scope(vals->spans[static_cast<size_t>(s)]));
      }
      int idx = add_known(RuntimeContext::GetCurrent());
      ++depth_est;
      log(json{{"e", "ScopeEnter"}, {"s", s}}, idx);
      scopes.emplace_back(known[static_cast<size_t>(idx)].id, std::move(sc));
    }
    else if (r < p_set + p_sets + p_att + p_scope + p_det)
    {
      // a token: mostly a recent own one (top-ish), sometimes any own one (out of order / stale),
      // sometimes one owned by the main thread (foreign); mostly detached (the object lives on),
      // sometimes destroyed
      int how = pick(10);
      if (how == 0 && !foreign.empty())
      {
        op_detach(*foreign[static_cast<size_t>(pick(foreign.size()))]);
      }
      else if (!toks.empty())
      {
        size_t i = (how < 7) ? toks.size() - 1 - static_cast<size_t>(pick(std::min<size_t>(toks.size(), 3)))
                             : static_cast<size_t>(pick(toks.size()));
        if (pick(4) == 0)
        {
          op_tokdtor(i);
          return;
        }
        op_detach(toks[i]);
        // mostly forget a used token's slot in the "recent" order (keep it alive: it may be
        // detached again or destroyed later, as a stale token)
        if (pick(3))
        {
          Tok tk = std::move(toks[i]);
          toks.erase(toks.begin() + static_cast<long>(i));
          toks.insert(toks.begin(), std::move(tk));
        }
      }
    }
    else if (!scopes.empty())
    {
      size_t i = (pick(4) == 0) ? static_cast<size_t>(pick(scopes.size())) : scopes.size() - 1;
      int id   = scopes[i].first;
      std::unique_ptr<trace::Scope> victim = std::move(scopes[i].second);
      scopes.erase(scopes.begin() + static_cast<long>(i));
      {
        ApiSection api;
        victim.reset();
      }
      log(json{{"e", "ScopeExit"}, {"c", id}}, -1);
    }
  }
};

static void RunExec(uint64_t seed, int nthreads, int maxops, int nk)
{
  Values vals;
  std::mt19937_64 rng(seed);
  vals.variant = static_cast<int>(rng() % 4);
  int kv       = static_cast<int>(rng() % 4);
  g_log.clear();
  g_next_id  = 0;
  g_next_tok = 0;
  if (g_wd)
    g_wd->arm(static_cast<long>(seed % 1000000));
  int mainT = nthreads + 1;
  g_log.push_back(json{{"e", "Cfg"}, {"nt", nthreads}, {"nk", nk}, {"kv", kv}, {"seed", seed}}.dump());

  // the main thread builds a pool of shared contexts and attaches some of them (its tokens are
  // foreign tokens for the workers; what it attaches must never be visible to them)
  Prog mainp{mainT, nk, kv, &vals, std::mt19937_64(seed ^ 0xABCDEF), {}, {}, {}, {}};
  mainp.known.push_back(Known{Context(), 0, {}});
  for (int i = 0; i < 5; ++i)
  {
    Known &par = mainp.known[static_cast<size_t>(mainp.pick(mainp.known.size()))];
    int pid    = par.id;
    int k      = 1 + mainp.pick(static_cast<size_t>(nk));
    int v      = (i == 3) ? 101 : 1 + mainp.pick(12);
    KeyBuf kb(KeyBytes(k, kv));
    Context parent = par.ctx;
    int idx        = mainp.add_known(parent.SetValue(kb.view(), vals.make(v)));
    mainp.log(json{{"e", "SetValue"}, {"p", pid}, {"k", k}, {"v", v}}, idx);
  }
  for (int i = 0; i < 3; ++i)
  {
    mainp.toks.reserve(8);  // (the workers keep pointers to these token objects)
    mainp.op_attach(mainp.known[static_cast<size_t>(1 + mainp.pick(mainp.known.size() - 1))]);
  }
  std::vector<std::unique_ptr<Prog>> progs;
  for (int t = 1; t <= nthreads; ++t)
  {
    progs.emplace_back(new Prog{t, nk, kv, &vals, std::mt19937_64(seed * 1315423911ull + static_cast<uint64_t>(t)), {}, {}, {}, {}});
    Prog &p = *progs.back();
    for (auto &k : mainp.known)
      p.known.push_back(Known{k.ctx, k.id, k.lastvals});
    p.npool = p.known.size();
    for (auto &tk : mainp.toks)
      p.foreign.push_back(&tk);
  }
  std::atomic<int> go{0};
  std::vector<std::thread> ths;
  for (int t = 1; t <= nthreads; ++t)
  {
    ths.emplace_back([&, t] {
      Prog &p = *progs[static_cast<size_t>(t - 1)];
      ++go;
      while (go.load() < nthreads)
        std::this_thread::yield();
      // grow to a target depth, unwind for a while, grow again, ... (shrink-after-growth histories)
      int target = 3 + p.pick(static_cast<size_t>(maxops / 3));  // attaches aimed at while growing
      int nops   = maxops / 2 + p.pick(static_cast<size_t>(maxops / 2 + 1));
      bool grow  = true;
      int shrink_left = 0;
      for (int i = 0; i < nops; ++i)
      {
        if (grow && p.depth_est >= target)
        {
          grow        = false;
          shrink_left = 8 + p.pick(30);
        }
        else if (!grow && --shrink_left <= 0)
        {
          grow        = true;
          p.depth_est = 0;
          target      = 3 + p.pick(static_cast<size_t>(maxops / 4));
        }
        p.step(grow);
      }
      // leave with scopes and tokens still alive: they are destroyed with the Prog, on the main
      // thread, after the join (stale tokens there are foreign tokens)
    });
  }
  for (auto &th : ths)
    th.join();
  // the main thread's own view must be untouched by whatever the workers did
  mainp.op_detach(mainp.toks.back());
  if (g_wd)
    g_wd->disarm();
  for (auto &l : g_log)
    std::cout << l << "\n";
  progs.clear();  // tokens/scopes of the workers die on the main thread
  // unwind the main thread completely for the next execution
  while (!mainp.toks.empty())
  {
    RuntimeContext::Detach(*mainp.toks.front().p);
    mainp.toks.erase(mainp.toks.begin());
  }
  if (!(RuntimeContext::GetCurrent() == Context()))
  {
    std::cerr << "harness: main thread stack not empty after unwinding\n";
    exit(5);
  }
}
}  // namespace rec

int main(int argc, char **argv)
{
  std::ios::sync_with_stdio(false);
  if (argc >= 3 && std::string(argv[1]) == "replay")
    return Replay(argv[2]);
  if (argc >= 7 && std::string(argv[1]) == "record")
  {
    uint64_t seed = std::stoull(argv[2]);
    int nexec = atoi(argv[3]), nthreads = atoi(argv[4]), maxops = atoi(argv[5]), nk = atoi(argv[6]);
    if (nk > kMaxKeys || nk < 1 || nthreads < 1 || nthreads > 7)
      return 2;
    // a thread stuck inside the code under test: print what was logged so far and leave with 3
    g_wd          = new Watchdog();
    g_wd->on_fire = [] {
      std::lock_guard<std::mutex> lk(rec::g_log_m);
      for (auto &l : rec::g_log)
        std::cout << l << "\n";
      std::cout << json{{"e", "Hang"}}.dump() << std::endl;
    };
    for (int i = 0; i < nexec; ++i)
      rec::RunExec(seed * 1000003ull + static_cast<uint64_t>(i), nthreads, maxops, nk);
    std::cout.flush();
    return 0;
  }
  std::cerr << "usage: c10_context replay <file> | record <seed> <nexec> <nthreads> <maxops> <nk>\n";
  return 2;
}
