// C07 replayer: steps behaviours printed by TLC from spec/Histogram.tla through the real
// histogram aggregations ("direct") and through MeterProvider + views + readers ("pipe").
//
//   c07_hist replay <behaviours.ndjson> <seed>     one verdict line per behaviour on stdout
//   c07_hist defaults                              the default boundary list of the real code
//
// The oracle is the behaviour file (exp / alts computed by TLC).  This program only
//   * concretises ranks through the fixed tables below (seeded variants of each),
//   * calls the real API,
//   * projects HistogramPointData (public fields) and compares with the concretised expectation.
//
// Concretisation tables (rank 0 is the value zero everywhere).  Every table is "quantised": all
// values are integer multiples of one power of two and all multiset sums stay below 2^53 quanta, so
// every partial sum in any order is exactly representable and `sum` can be compared exactly (the
// comparison is about WHICH values were counted, never about rounding).  This is self-checked; a
// table that cannot guarantee it makes the harness exit 5 (broken check, never a violation).
//   D_small    r * c            c in {1, 0.5, 3, 0.125, 1024, 2.5}
//   D_tiny     (base + r) * denorm_min   base in {0, 0, 1, 2^20, 2^40}: adjacent (sub)normal doubles,
//                                all below DBL_MIN; base 0: rank 1 = denorm_min
//   D_huge     r * 2^E          E in {900, 970, 1000}  (values around 1e271 .. 6e301)
//   D_frac     r * m * 2^-k     odd m: fractional boundaries (0.375, 0.3125, ...)
//   D_default  rank 2i = i-th default boundary of the real code, 2i+1 between it and the next
//   I_small    r * c            c in {1, 2, 10, 1000}
//   I_frac     boundaries r*c/2 with odd c (fractional at odd ranks), values (r/2)*c at even ranks
//   I_huge     0, 1, 2^53-1, 2^53, 2^53+1, 2^53+2, 2^53+4   (boundaries are the doubles of these)
//   I_default  like D_default with integers strictly between the boundaries
// LONG boundary lists: the spec's boundary list may contain filler "ranks" outside 0..MaxRank
// (r < 0: below every value, r > MaxRank: above every value).  bound_of() continues every table's
// formula there (negative doubles / adjacent subnormals below zero; values beyond the top rank), so
// a list gets 17, 32, 100+ concrete boundaries with the value-equal ones at its first, middle or
// last positions - also the real default list embedded in a longer, view-configured one.  The
// expected counts vector (as long as the list + 1) still comes from TLC.
#include <algorithm>
#include <cmath>
#include <cstdint>
#include <cstdio>
#include <cstring>
#include <fstream>
#include <iostream>
#include <limits>
#include <map>
#include <memory>
#include <random>
#include <string>
#include <vector>

#include <nlohmann/json.hpp>

#include "opentelemetry/context/context.h"
#include "opentelemetry/sdk/metrics/aggregation/aggregation_config.h"
#include "opentelemetry/sdk/metrics/aggregation/default_aggregation.h"
#include "opentelemetry/sdk/metrics/aggregation/histogram_aggregation.h"
#include "opentelemetry/sdk/metrics/data/point_data.h"
#include "opentelemetry/sdk/metrics/export/metric_producer.h"
#include "opentelemetry/sdk/metrics/instruments.h"
#include "opentelemetry/sdk/metrics/meter_provider.h"
#include "opentelemetry/sdk/metrics/metric_reader.h"
#include "opentelemetry/sdk/metrics/view/instrument_selector.h"
#include "opentelemetry/sdk/metrics/view/meter_selector.h"
#include "opentelemetry/sdk/metrics/view/view.h"

using json = nlohmann::json;
namespace m     = opentelemetry::sdk::metrics;
namespace nostd = opentelemetry::nostd;

[[noreturn]] static void broken(const std::string &why)
{
  std::cout << json({{"broken", why}}).dump() << std::endl;
  std::exit(5);
}

static const double kTwo53 = 9007199254740992.0;

// ---------------------------------------------------------------------------------------------
struct Table
{
  std::string name;
  bool is_double = true;
  int max_rank   = 0;
  // doubles: value(r) = mult[r] * 2^qexp ; longs: value(r) = ival[r]
  std::vector<int64_t> mult;
  int qexp = 0;
  std::vector<int64_t> ival;
  std::vector<bool> recordable;  // rank may be recorded as a value
  std::vector<double> bval;      // rank as a boundary
  std::string variant;

  double dval(int r) const { return std::ldexp(static_cast<double>(mult[r]), qexp); }

  // per-table continuation for filler boundaries
  int64_t step_mult = 1;   // doubles: mult of one rank step (fillers: r * step_mult quanta)
  int64_t base_mult = 0;   // D_tiny: offset of positive ranks
  double step_val   = 1.0; // longs / defaults: distance of two filler boundaries

  // the concrete boundary for an (extended) rank
  double bound_of(int r) const
  {
    if (r >= 0 && r <= max_rank)
      return bval[r];
    if (name == "D_small" || name == "D_huge" || name == "D_frac")
      return std::ldexp(static_cast<double>(static_cast<int64_t>(r) * step_mult), qexp);
    if (name == "D_tiny")
      return std::ldexp(static_cast<double>(r < 0 ? static_cast<int64_t>(r) : base_mult + r), qexp);
    if (r < 0)
      return static_cast<double>(r) * step_val;
    return bval[max_rank] + static_cast<double>(r - max_rank) * step_val;
  }
};

static std::vector<double> real_default_boundaries()
{
  m::DoubleHistogramAggregation a;  // no config: the real default list
  return nostd::get<m::HistogramPointData>(a.ToPoint()).boundaries_;
}

static Table make_table(const std::string &name, int max_rank, std::mt19937_64 &rng)
{
  Table t;
  t.name     = name;
  t.max_rank = max_rank;
  t.mult.assign(max_rank + 1, 0);
  t.ival.assign(max_rank + 1, 0);
  t.recordable.assign(max_rank + 1, true);
  t.bval.assign(max_rank + 1, 0.0);
  t.is_double = name[0] == 'D';
  auto pick   = [&](int n) { return static_cast<int>(rng() % static_cast<uint64_t>(n)); };
  if (name == "D_small")
  {
    static const int64_t cm[] = {1, 1, 3, 1, 1, 5};
    static const int ce[]     = {0, -1, 0, -3, 10, -1};
    int i                     = pick(6);
    t.qexp                    = ce[i];
    for (int r = 0; r <= max_rank; ++r)
      t.mult[r] = r * cm[i];
    t.step_mult = cm[i];
    t.variant = "c=" + std::to_string(std::ldexp((double)cm[i], ce[i]));
  }
  else if (name == "D_tiny")
  {
    static const int64_t bases[] = {0, 0, 1, 1LL << 20, 1LL << 40};
    int64_t b                    = bases[pick(5)];
    t.qexp                       = -1074;
    for (int r = 1; r <= max_rank; ++r)
      t.mult[r] = b + r;
    t.base_mult = b;
    t.variant = "base=" + std::to_string(b);
  }
  else if (name == "D_huge")
  {
    static const int es[] = {900, 970, 1000};
    t.qexp                = es[pick(3)];
    for (int r = 0; r <= max_rank; ++r)
      t.mult[r] = r;
    t.variant = "E=" + std::to_string(t.qexp);
  }
  else if (name == "D_frac")
  {
    static const int64_t cm[] = {3, 5, 7, 1234567};
    static const int ce[]     = {-3, -4, -10, -30};
    int i                     = pick(4);
    t.qexp                    = ce[i];
    for (int r = 0; r <= max_rank; ++r)
      t.mult[r] = r * cm[i];
    t.step_mult = cm[i];
    t.variant = "c=" + std::to_string(std::ldexp((double)cm[i], ce[i]));
  }
  else if (name == "I_small")
  {
    static const int64_t cs[] = {1, 2, 10, 1000};
    int64_t c                 = cs[pick(4)];
    for (int r = 0; r <= max_rank; ++r)
      t.ival[r] = r * c;
    t.step_val = static_cast<double>(c);
    t.variant = "c=" + std::to_string(c);
  }
  else if (name == "I_frac")
  {
    static const int64_t cs[] = {1, 3, 7};
    int64_t c                 = cs[pick(3)];
    for (int r = 0; r <= max_rank; ++r)
    {
      t.bval[r]       = static_cast<double>(r * c) / 2.0;
      t.recordable[r] = (r % 2 == 0);
      t.ival[r]       = (r / 2) * c;
    }
    t.step_val = static_cast<double>(c) / 2.0;
    t.variant  = "c=" + std::to_string(c);
  }
  else if (name == "I_huge")
  {
    if (max_rank != 6)
      broken("I_huge is defined for ranks 0..6 only");
    const int64_t p53 = 1LL << 53;
    int64_t v[]       = {0, 1, p53 - 1, p53, p53 + 1, p53 + 2, p53 + 4};
    for (int r = 0; r <= 6; ++r)
      t.ival[r] = v[r];
    t.step_val = 2.0;  // 2^53+6, 2^53+8, ... are representable; below zero -2, -4, ...
    t.variant  = "2^53";
  }
  else if (name == "D_default" || name == "I_default")
  {
    std::vector<double> d = real_default_boundaries();
    int n                 = static_cast<int>(d.size());
    if (max_rank != 2 * n)
      broken("default tables need MaxRank = 2 * (number of default boundaries)");
    if (n == 0 || d[0] != 0.0)
      broken("default tables assume the first default boundary is 0 (rank 0 = value zero)");
    int mode  = pick(3);
    t.step_val = 8.0;
    t.variant = "mode=" + std::to_string(mode);
    t.qexp    = -1;  // multiples of 0.5
    for (int i = 0; i < n; ++i)
    {
      double lo = d[i], hi = (i + 1 < n) ? d[i + 1] : d[i] * 4 + 8;
      double mid;
      if (t.is_double)
        mid = mode == 0 ? (lo + hi) / 2 : (mode == 1 ? lo + 0.5 : hi - 0.5);
      else
        mid = mode == 0 ? std::floor((lo + hi) / 2) : (mode == 1 ? lo + 1 : hi - 1);
      double vals[2] = {lo, mid};
      for (int j = 0; j < 2; ++j)
      {
        double x = vals[j] * 2;
        if (x != std::floor(x) || x < 0 || x > 1e15)
          broken("default boundaries are not multiples of 0.5");
        t.mult[2 * i + j] = static_cast<int64_t>(x);
        if (!t.is_double)
        {
          if (vals[j] != std::floor(vals[j]))
            t.recordable[2 * i + j] = false;
          t.ival[2 * i + j] = static_cast<int64_t>(vals[j]);
        }
      }
      if (!(lo < mid && mid < hi))
        broken("no exactly representable value strictly between two default boundaries");
    }
    double top      = d[n - 1] * 4 + 8;
    t.mult[2 * n]   = static_cast<int64_t>(top * 2);
    t.ival[2 * n]   = static_cast<int64_t>(top);
    for (int r = 0; r <= max_rank; ++r)
      t.bval[r] = std::ldexp(static_cast<double>(t.mult[r]), -1);
  }
  else
    broken("unknown table " + name);

  if (t.is_double)
  {
    for (int r = 0; r <= max_rank; ++r)
    {
      if (t.mult[r] < 0 || static_cast<double>(t.mult[r]) > kTwo53)
        broken("table multiplier out of range");
      if (name != "D_default")
        t.bval[r] = t.dval(r);
    }
  }
  else if (name != "I_frac" && name != "I_default")
  {
    for (int r = 0; r <= max_rank; ++r)
      t.bval[r] = static_cast<double>(t.ival[r]);
  }
  // ranks must be strictly increasing, as values and as boundaries
  for (int r = 1; r <= max_rank; ++r)
  {
    if (!(t.bval[r - 1] < t.bval[r]) && !(name == "I_huge"))
      broken("table " + name + " boundaries not strictly increasing");
    if (t.is_double && !(t.dval(r - 1) < t.dval(r)))
      broken("table " + name + " values not strictly increasing");
  }
  if ((t.is_double ? t.dval(0) : static_cast<double>(t.ival[0])) != 0.0)
    broken("rank 0 must be the value zero");
  return t;
}

// ---------------------------------------------------------------------------------------------
struct Observed
{
  bool present = false;
  m::HistogramPointData p;
};

static json show(const m::HistogramPointData &p)
{
  json j;
  j["boundaries"] = p.boundaries_;
  j["counts"]     = p.counts_;
  j["count"]      = p.count_;
  char b[64];
  auto num = [&](const m::ValueType &v) -> json {
    if (nostd::holds_alternative<double>(v))
    {
      snprintf(b, sizeof b, "%a", nostd::get<double>(v));
      return std::string("double:") + b;
    }
    return std::string("int64:") + std::to_string(nostd::get<int64_t>(v));
  };
  j["sum"]            = num(p.sum_);
  j["min"]            = num(p.min_);
  j["max"]            = num(p.max_);
  j["record_min_max"] = p.record_min_max_;
  return j;
}

// does the real point equal the (abstract) expected point `e`, concretised through table t ?
static bool matches(const Table &t, const std::vector<double> &bounds, const json &e,
                    const m::HistogramPointData &p, std::string &why)
{
  if (p.boundaries_ != bounds)
  {
    why = "boundaries";
    return false;
  }
  std::vector<uint64_t> counts = e["counts"].get<std::vector<uint64_t>>();
  if (p.counts_ != counts)
  {
    why = "counts";
    return false;
  }
  if (p.count_ != e["count"].get<uint64_t>())
  {
    why = "count";
    return false;
  }
  const json &sm = e["sum"];
  if (static_cast<int>(sm.size()) != t.max_rank + 1)
    broken("sum multiset has the wrong length");
  if (t.is_double)
  {
    __int128 q = 0;
    for (int r = 0; r <= t.max_rank; ++r)
      q += static_cast<__int128>(sm[r].get<int64_t>()) * t.mult[r];
    if (q > static_cast<__int128>(1) << 53)
      broken("expected sum is not exactly representable (table " + t.name + ")");
    double want = std::ldexp(static_cast<double>(static_cast<int64_t>(q)), t.qexp);
    if (!std::isfinite(want))
      broken("expected sum overflows double");
    if (!nostd::holds_alternative<double>(p.sum_) || nostd::get<double>(p.sum_) != want)
    {
      why = "sum";
      return false;
    }
  }
  else
  {
    __int128 q = 0;
    for (int r = 0; r <= t.max_rank; ++r)
      q += static_cast<__int128>(sm[r].get<int64_t>()) * t.ival[r];
    if (q > static_cast<__int128>(INT64_MAX))
      broken("expected sum overflows int64");
    if (!nostd::holds_alternative<int64_t>(p.sum_) ||
        nostd::get<int64_t>(p.sum_) != static_cast<int64_t>(q))
    {
      why = "sum";
      return false;
    }
  }
  if (e["mm"].get<bool>())
  {
    if (!p.record_min_max_)
    {
      why = "record_min_max";
      return false;
    }
    int mn = e["min"].get<int>(), mx = e["max"].get<int>();
    if (t.is_double)
    {
      double wmin = t.dval(mn);
      double wmax = mx == -2 ? (std::numeric_limits<double>::min)() : t.dval(mx);
      if (!nostd::holds_alternative<double>(p.min_) || nostd::get<double>(p.min_) != wmin)
      {
        why = "min";
        return false;
      }
      if (!nostd::holds_alternative<double>(p.max_) || nostd::get<double>(p.max_) != wmax)
      {
        why = "max";
        return false;
      }
    }
    else
    {
      if (mx == -2)
      {
        why = "max";
        return false;  // the sentinel alternative does not exist for int64
      }
      if (!nostd::holds_alternative<int64_t>(p.min_) || nostd::get<int64_t>(p.min_) != t.ival[mn])
      {
        why = "min";
        return false;
      }
      if (!nostd::holds_alternative<int64_t>(p.max_) || nostd::get<int64_t>(p.max_) != t.ival[mx])
      {
        why = "max";
        return false;
      }
    }
  }
  return true;
}

// result of checking one point against exp / alts
struct Verdict
{
  bool ok = true;
  std::vector<std::string> devs;  // non-empty: only an alternative matched
  std::string why;
};

static Verdict check_point(const Table &t, const std::vector<double> &bounds, const json &exp,
                           const json &alts, const m::HistogramPointData &p)
{
  Verdict v;
  if (matches(t, bounds, exp, p, v.why))
    return v;
  // alternatives, fewest deviations first
  for (int n = 1; n <= 8; ++n)
    for (const auto &a : alts)
      if (a["n"].get<int>() == n)
      {
        std::string w;
        if (matches(t, bounds, a["pt"], p, w))
        {
          v.devs = a["devs"].get<std::vector<std::string>>();
          return v;
        }
      }
  v.ok = false;
  return v;
}

// ---------------------------------------------------------------------------------------------
class TestReader : public m::MetricReader
{
public:
  explicit TestReader(m::AggregationTemporality t) : t_(t) {}
  m::AggregationTemporality GetAggregationTemporality(m::InstrumentType) const noexcept override
  {
    return t_;
  }

private:
  bool OnForceFlush(std::chrono::microseconds) noexcept override { return true; }
  bool OnShutDown(std::chrono::microseconds) noexcept override { return true; }
  m::AggregationTemporality t_;
};

struct Replay
{
  const json &steps;
  uint64_t seed;
  json out;

  Replay(const json &s, uint64_t sd) : steps(s), seed(sd) {}

  void add_devs(const std::vector<std::string> &d, int step)
  {
    for (auto &x : d)
    {
      bool seen = false;
      for (auto &y : out["devs"])
        if (y == x)
          seen = true;
      if (!seen)
      {
        out["devs"].push_back(x);
        out["dev_step"].push_back(step);
      }
    }
  }

  json run()
  {
    out              = json::object();
    out["ok"]        = true;
    out["devs"]      = json::array();
    out["dev_step"]  = json::array();
    out["points"]    = 0;
    const json &cfg  = steps.at(0);
    if (cfg["op"] != "cfg")
      broken("behaviour does not start with cfg");
    std::mt19937_64 rng(seed);
    std::string tab           = cfg["tab"];
    std::vector<int> branks   = cfg["bounds"].get<std::vector<int>>();
    bool mm                   = cfg["mm"];
    bool is_default           = tab == "D_default" || tab == "I_default";
    int max_rank              = -1;
    // MaxRank is implied by the length of any sum vector; find the first
    for (size_t i = 1; i < steps.size() && max_rank < 0; ++i)
    {
      const json &s = steps[i];
      if (s.contains("exp"))
        max_rank = static_cast<int>(s["exp"]["sum"].size()) - 1;
      else if (s.contains("pts"))
        max_rank = static_cast<int>(s["pts"][0]["exp"]["sum"].size()) - 1;
    }
    if (max_rank < 0)
    {
      out["steps"] = 0;
      return out;  // nothing observable in this behaviour
    }
    Table t        = make_table(tab, max_rank, rng);
    out["variant"] = t.variant;
    if (t.is_double != (cfg["kind"] == "double"))
      broken("table kind differs between spec and harness");
    std::vector<double> bounds;
    bool padded = false;
    for (int r : branks)
    {
      bounds.push_back(t.bound_of(r));
      if (r < 0 || r > max_rank)
        padded = true;
    }
    for (size_t i = 1; i < bounds.size(); ++i)
      if (!(bounds[i - 1] < bounds[i]) || !std::isfinite(bounds[i]))
        broken("concrete boundary list of table " + tab + " is not strictly increasing");
    for (int r : branks)  // fillers must lie outside the value range
      if ((r < 0 && !(t.bound_of(r) < 0.0)) || (r > max_rank && !(t.bound_of(r) > t.bval[max_rank])))
        broken("filler boundary inside the value range");
    out["nbounds"] = bounds.size();
    if (is_default && padded)
    {
      // the real default list embedded in a longer, explicitly configured one
      std::vector<double> d = real_default_boundaries();
      if (!std::includes(bounds.begin(), bounds.end(), d.begin(), d.end()))
        broken("padded default table does not embed the default boundaries");
      is_default = false;
    }
    else if (is_default)
    {
      if (bounds != real_default_boundaries())
        broken("default table does not reproduce the default boundaries");
      if (!mm)
        broken("default configuration implies record_min_max");
    }
    if (cfg["mode"] == "direct")
      direct(t, bounds, mm, is_default, rng);
    else
      pipe(t, bounds, mm, is_default, cfg["readers"], rng);
    return out;
  }

  void fail(int step, const std::string &why, const json &got)
  {
    out["ok"]   = false;
    out["step"] = step;
    out["why"]  = why;
    out["got"]  = got;
  }

  void direct(const Table &t, const std::vector<double> &bounds, bool mm, bool is_default,
              std::mt19937_64 &rng)
  {
    std::map<int, std::unique_ptr<m::Aggregation>> slot;
    m::HistogramAggregationConfig hc;
    hc.boundaries_     = bounds;
    hc.record_min_max_ = mm;
    const m::AggregationConfig *cfgp = is_default ? nullptr : &hc;
    m::InstrumentDescriptor desc{"h", "d", "u", m::InstrumentType::kHistogram,
                                 t.is_double ? m::InstrumentValueType::kDouble
                                             : m::InstrumentValueType::kLong};
    for (size_t i = 1; i < steps.size(); ++i)
    {
      const json &s  = steps[i];
      std::string op = s["op"];
      int target     = -1;
      if (op == "new")
      {
        target   = s["s"];
        int how  = static_cast<int>(rng() % 3);
        if (how == 0)
          slot[target] = t.is_double
                             ? std::unique_ptr<m::Aggregation>(new m::DoubleHistogramAggregation(cfgp))
                             : std::unique_ptr<m::Aggregation>(new m::LongHistogramAggregation(cfgp));
        else if (how == 1)
          slot[target] = m::DefaultAggregation::CreateAggregation(m::AggregationType::kHistogram, desc, cfgp);
        else
          slot[target] = m::DefaultAggregation::CreateAggregation(desc, cfgp);
      }
      else if (op == "agg")
      {
        target = s["s"];
        int r  = s["v"];
        if (!t.recordable[r])
          broken("behaviour records a rank that is not a value in table " + t.name);
        if (t.is_double)
          slot[target]->Aggregate(t.dval(r), {});
        else
          slot[target]->Aggregate(t.ival[r], {});
      }
      else if (op == "merge")
      {
        target = s["d"];
        auto r = slot[s["a"].get<int>()]->Merge(*slot[s["b"].get<int>()]);
        slot[target] = std::move(r);
      }
      else if (op == "diff")
      {
        target = s["d"];
        auto r = slot[s["a"].get<int>()]->Diff(*slot[s["b"].get<int>()]);
        slot[target] = std::move(r);
      }
      else
        broken("unknown op " + op);
      if (!slot[target])
      {
        fail(static_cast<int>(i), "null aggregation", json());
        return;
      }
      auto pt = slot[target]->ToPoint();
      if (!nostd::holds_alternative<m::HistogramPointData>(pt))
      {
        fail(static_cast<int>(i), "not a histogram point", json());
        return;
      }
      const auto &p = nostd::get<m::HistogramPointData>(pt);
      Verdict v     = check_point(t, bounds, s["exp"], s["alts"], p);
      out["points"] = out["points"].get<int>() + 1;
      if (!v.ok)
      {
        fail(static_cast<int>(i), v.why, show(p));
        return;
      }
      add_devs(v.devs, static_cast<int>(i));
    }
    out["steps"] = steps.size() - 1;
  }

  void pipe(const Table &t, const std::vector<double> &bounds, bool mm, bool is_default,
            const json &readers, std::mt19937_64 &rng)
  {
    m::MeterProvider mp;
    std::vector<std::shared_ptr<TestReader>> rds;
    for (auto &r : readers)
    {
      auto rd = std::make_shared<TestReader>(r == "d" ? m::AggregationTemporality::kDelta
                                                      : m::AggregationTemporality::kCumulative);
      rds.push_back(rd);
      mp.AddMetricReader(rd);
    }
    const std::string name = "c07_hist", unit = "ms";
    if (!is_default)
    {
      std::shared_ptr<m::HistogramAggregationConfig> hc(new m::HistogramAggregationConfig());
      hc->boundaries_     = bounds;
      hc->record_min_max_ = mm;
      std::unique_ptr<m::View> view{new m::View("c07_view", "d", unit, m::AggregationType::kHistogram, hc)};
      std::unique_ptr<m::InstrumentSelector> is{
          new m::InstrumentSelector(m::InstrumentType::kHistogram, name, unit)};
      std::unique_ptr<m::MeterSelector> ms{new m::MeterSelector("c07", "1", "s")};
      mp.AddView(std::move(is), std::move(ms), std::move(view));
    }
    auto meter = mp.GetMeter("c07", "1", "s");
    nostd::unique_ptr<opentelemetry::metrics::Histogram<double>> hd;
    nostd::unique_ptr<opentelemetry::metrics::Histogram<uint64_t>> hl;
    if (t.is_double)
      hd = meter->CreateDoubleHistogram(name, "d", unit);
    else
      hl = meter->CreateUInt64Histogram(name, "d", unit);
    // attribute sets: key k -> {"k": "k<k>"}; by seed, key 1 is the empty attribute set instead
    bool key1_empty = (rng() % 2) == 0;
    bool use_noattr_overload = (rng() % 2) == 0;
    out["variant"] = out["variant"].get<std::string>() + (key1_empty ? ",key1={}" : ",key1={k:k1}");
    auto ctx = opentelemetry::context::Context{};
    for (size_t i = 1; i < steps.size(); ++i)
    {
      const json &s  = steps[i];
      std::string op = s["op"];
      if (op == "rec")
      {
        int k = s["k"], r = s["v"];
        if (!t.recordable[r])
          broken("behaviour records a rank that is not a value in table " + t.name);
        // the attribute strings live in a scratch buffer that is overwritten after the call
        std::string kv = "k" + std::to_string(k);
        std::map<std::string, std::string> attrs;
        if (!(k == 1 && key1_empty))
          attrs["k"] = kv;
        if (attrs.empty() && use_noattr_overload)
        {
          if (t.is_double)
            hd->Record(t.dval(r), ctx);
          else
            hl->Record(static_cast<uint64_t>(t.ival[r]), ctx);
        }
        else
        {
          opentelemetry::common::KeyValueIterableView<std::map<std::string, std::string>> view{attrs};
          if (t.is_double)
            hd->Record(t.dval(r), view, ctx);
          else
            hl->Record(static_cast<uint64_t>(t.ival[r]), view, ctx);
        }
        for (auto &a : attrs)
          for (auto &c : a.second)
            c = 'X';
      }
      else if (op == "collect")
      {
        int r = s["r"].get<int>() - 1;
        std::map<int, std::vector<m::HistogramPointData>> got;  // key -> points (0 = unknown attrs)
        std::string oops;
        rds[r]->Collect([&](m::ResourceMetrics &rm) {
          for (const m::ScopeMetrics &sm : rm.scope_metric_data_)
            for (const m::MetricData &md : sm.metric_data_)
              for (const m::PointDataAttributes &dp : md.point_data_attr_)
              {
                if (!nostd::holds_alternative<m::HistogramPointData>(dp.point_data))
                {
                  oops = "not a histogram point";
                  continue;
                }
                int k = 0;
                const auto &a = dp.attributes;
                if (a.empty())
                  k = key1_empty ? 1 : 0;
                else if (a.size() == 1 && a.begin()->first == "k" &&
                         nostd::holds_alternative<std::string>(a.begin()->second))
                {
                  const std::string &v = nostd::get<std::string>(a.begin()->second);
                  if (v.size() >= 2 && v[0] == 'k')
                    k = std::atoi(v.c_str() + 1);
                  if (k == 1 && key1_empty)
                    k = 0;
                }
                got[k].push_back(nostd::get<m::HistogramPointData>(dp.point_data));
              }
          return true;
        });
        if (!oops.empty())
        {
          fail(static_cast<int>(i), oops, json());
          return;
        }
        const json &pts = s["pts"];
        for (auto &g : got)
          if (g.first < 1 || g.first > static_cast<int>(pts.size()))
          {
            fail(static_cast<int>(i), "point for an attribute set that was never recorded", show(g.second[0]));
            return;
          }
        for (size_t k = 1; k <= pts.size(); ++k)
        {
          const json &e = pts[k - 1];
          auto it       = got.find(static_cast<int>(k));
          size_t n      = it == got.end() ? 0 : it->second.size();
          if (n > 1)
          {
            fail(static_cast<int>(i), "two points for one attribute set (key " + std::to_string(k) + ")",
                 show(it->second[1]));
            return;
          }
          if (n == 0)
          {
            if (e["must"].get<bool>())
            {
              fail(static_cast<int>(i), "no point for key " + std::to_string(k), json());
              return;
            }
            continue;
          }
          Verdict v     = check_point(t, bounds, e["exp"], e["alts"], it->second[0]);
          out["points"] = out["points"].get<int>() + 1;
          if (!v.ok)
          {
            fail(static_cast<int>(i), v.why + " (key " + std::to_string(k) + ")", show(it->second[0]));
            return;
          }
          add_devs(v.devs, static_cast<int>(i));
        }
      }
      else
        broken("unknown op " + op);
    }
    out["steps"] = steps.size() - 1;
  }
};

int main(int argc, char **argv)
{
  if (argc >= 2 && std::string(argv[1]) == "defaults")
  {
    std::cout << json({{"defaults", real_default_boundaries()}}).dump() << std::endl;
    return 0;
  }
  if (argc < 4 || std::string(argv[1]) != "replay")
  {
    std::cerr << "usage: c07_hist replay <file> <seed> | defaults\n";
    return 2;
  }
  std::ifstream in(argv[2]);
  uint64_t seed = std::strtoull(argv[3], nullptr, 10);
  std::string line;
  int n = 0;
  while (std::getline(in, line))
  {
    if (line.empty())
      continue;
    json b = json::parse(line);
    // every behaviour gets its own concretisation seed (stored in the file for replay, else derived)
    uint64_t s = b.contains("cseed") ? b["cseed"].get<uint64_t>() : seed * 1000003ULL + static_cast<uint64_t>(n);
    std::cout << json({{"start", n}}).dump() << std::endl;
    Replay r(b["steps"], s);
    json o     = r.run();
    o["beh"]   = n;
    o["cseed"] = s;
    std::cout << o.dump() << std::endl;
    ++n;
  }
  return 0;
}
