// C06, concurrent clause: recorder threads racing collector threads on the REAL, unmodified metrics
// pipeline (MeterProvider -> Meter -> Counter -> SyncMetricStorage -> TemporalMetricStorage), compiled
// against the scheduler shim (flavour "shim": SpinLockMutex's atomics, std::mutex, ... are scheduling
// points of engine/vsched).  Every execution prints the observable event log validated by
// spec/MetricsSyncConcTrace.tla:
//   Cfg(temps)  AddCall(m, attrs, v)  AddRet(m)  ColCall(c, r, final)  ColRet(c, r, pts)  DownCall(r)  DownRet(r)  End
//
//   c06_conc explore <random|pct> <n> <seed> <temps e.g. dc> <nrec> <nadd> <ncol> [<nshut>=0]
//       nshut = 1 (and >= 2 readers): one more thread shuts ONE reader (drawn from the seed) down on its own
//       - MetricReader::Shutdown, the provider stays alive - racing the recorders and the collectors; that
//       reader's own collector thread simply goes on (the SDK lets a shut-down reader collect).
//       nrec recorder threads x nadd Adds each (each through its own handle obtained for the same
//       instrument when <handles> = 2 ... see `dup`), one collector thread per reader x ncol
//       collections, then, all threads joined, one final collection per reader.
// Amounts are distinct powers of two (measurement m adds 2^(m-1)), so the set of measurements a point
// accounts for is determined by its value; attribute sets come from a pool of three.
#include <nlohmann/json.hpp>

#include "c06_common.h"
#include "hcommon.h"

#include "opentelemetry/metrics/meter.h"
#include "opentelemetry/metrics/sync_instruments.h"
#include "opentelemetry/sdk/metrics/data/metric_data.h"
#include "opentelemetry/sdk/metrics/export/metric_producer.h"
#include "opentelemetry/sdk/metrics/meter_context.h"
#include "opentelemetry/sdk/metrics/meter_provider.h"
#include "opentelemetry/sdk/metrics/metric_reader.h"
#include "opentelemetry/sdk/metrics/view/view_registry.h"
#include "opentelemetry/sdk/resource/resource.h"

using namespace c06;
namespace sdkm = opentelemetry::sdk::metrics;
namespace apim = opentelemetry::metrics;

namespace
{
class PullReader final : public sdkm::MetricReader
{
public:
  explicit PullReader(sdkm::AggregationTemporality t) : t_(t) {}
  sdkm::AggregationTemporality GetAggregationTemporality(sdkm::InstrumentType) const noexcept override
  {
    return t_;
  }

private:
  bool OnForceFlush(std::chrono::microseconds) noexcept override { return true; }
  bool OnShutDown(std::chrono::microseconds) noexcept override { return true; }
  sdkm::AggregationTemporality t_;
};

const int kKt = 0, kVf = 2;
const int kPool[3][2][2] = {{{1, 1}, {0, 0}}, {{1, 2}, {0, 0}}, {{2, 1}, {1, 1}}};  // pairs (k,v); k=0: unused

json pool_attrs(int i)
{
  json a = json::array();
  for (int j = 0; j < 2; ++j)
    if (kPool[i][j][0])
      a.push_back(json::array({kPool[i][j][0], kPool[i][j][1]}));
  return a;
}

json points_of(const std::vector<sdkm::MetricData> &got)
{
  json pts = json::array();
  for (auto &md : got)
    for (auto &pa : md.point_data_attr_)
    {
      bool ovf = false;
      json p;
      p["a"]   = abstract_attrs(pa.attributes, kKt, kVf, 4, &ovf);
      p["o"]   = ovf;
      long val = kGarbage;
      if (auto sp = nostd::get_if<sdkm::SumPointData>(&pa.point_data))
        if (auto iv = nostd::get_if<int64_t>(&sp->value_))
          val = (*iv >= 0 && *iv < (1L << 30)) ? (long)*iv : kGarbage;
      p["v"] = val;
      pts.push_back(p);
    }
  return pts;
}

void emit(const json &e)
{
  vs::NoYield ny;
  vs::emit(e.dump());
}
}  // namespace

int main(int argc, char **argv)
{
  if (argc < 9 || std::string(argv[1]) != "explore")
  {
    fprintf(stderr, "usage: c06_conc explore random|pct N SEED TEMPS NREC NADD NCOL\n");
    return 2;
  }
  std::string strat = argv[2];
  long n            = atol(argv[3]);
  uint64_t seed     = strtoull(argv[4], nullptr, 10);
  std::string temps = argv[5];
  int nrec = atoi(argv[6]), nadd = atoi(argv[7]), ncol = atoi(argv[8]);
  int nshut = argc > 9 ? atoi(argv[9]) : 0;
  json jtemps = json::array();
  for (char c : temps)
    jtemps.push_back(c == 'd' ? "delta" : "cum");
  hc::install();
  json cfgev           = {{"e", "Cfg"}, {"temps", jtemps}, {"nrec", nrec}, {"nadd", nadd}, {"ncol", ncol}};
  hc::pending_header() = cfgev.dump();
  long execs = 0;
  for (long it = 0; it < n; ++it)
  {
    vs::Config cfg;
    cfg.seed = seed * 1000003ULL + (uint64_t)it;
    if (strat == "pct")
    {
      cfg.strategy  = vs::S_PCT;
      cfg.pct_depth = 1 + (int)(it % 4);
      cfg.pct_len   = 400 * (nrec * nadd + (int)temps.size() * ncol);
    }
    else
      cfg.strategy = vs::S_RANDOM;
    cfg.max_steps        = 200000;
    cfg.fair_extra_steps = 200000;
    Rng rng(cfg.seed);
    vs::Result res = vs::run(cfg, [&]() {
      std::unique_ptr<sdkm::MeterContext> c(new sdkm::MeterContext(
          std::unique_ptr<sdkm::ViewRegistry>(new sdkm::ViewRegistry()),
          opentelemetry::sdk::resource::Resource::Create({})));
      auto provider = std::make_shared<sdkm::MeterProvider>(std::move(c));
      std::vector<std::shared_ptr<PullReader>> readers;
      for (char t : temps)
      {
        readers.push_back(std::make_shared<PullReader>(
            t == 'd' ? sdkm::AggregationTemporality::kDelta : sdkm::AggregationTemporality::kCumulative));
        provider->AddMetricReader(readers.back());
      }
      auto meter   = provider->GetMeter("m");
      auto counter = meter->CreateUInt64Counter("ins");
      int col_ids  = 0;
      auto collect = [&](int r, bool final) {
        int cid;
        {
          vs::NoYield ny;
          cid = ++col_ids;
        }
        emit({{"e", "ColCall"}, {"c", cid}, {"r", r}, {"final", final}});
        std::vector<sdkm::MetricData> got;
        readers[(size_t)r - 1]->Collect([&](sdkm::ResourceMetrics &rm) {
          for (auto &sm : rm.scope_metric_data_)
            for (auto &md : sm.metric_data_)
              got.push_back(md);
          return true;
        });
        emit({{"e", "ColRet"}, {"c", cid}, {"r", r}, {"pts", points_of(got)}});
      };
      // the choices of every thread are fixed before the threads start (they depend on the seed only)
      std::vector<std::vector<int>> which((size_t)nrec);
      for (int p = 0; p < nrec; ++p)
        for (int k = 0; k < nadd; ++k)
          which[(size_t)p].push_back(rng.below(3));
      std::vector<std::thread> th;
      for (int p = 0; p < nrec; ++p)
        th.emplace_back([&, p]() {
          for (int k = 0; k < nadd; ++k)
          {
            int m      = p * nadd + k + 1;
            int pi     = which[(size_t)p][(size_t)k];
            json attrs = pool_attrs(pi);
            CallerAttrs ca;
            for (auto &kv : attrs)
              ca.add(kKt, kVf, kv.at(0).get<int>(), kv.at(1).get<int>());
            SeqIterable iter(ca.kvs);
            long v = 1L << (m - 1);
            emit({{"e", "AddCall"}, {"m", m}, {"attrs", attrs}, {"v", v}});
            counter->Add((uint64_t)v, iter);
            emit({{"e", "AddRet"}, {"m", m}});
            ca.scribble_and_free();
          }
        });
      for (int r = 1; r <= (int)temps.size(); ++r)
        th.emplace_back([&, r]() {
          for (int k = 0; k < ncol; ++k)
            collect(r, false);
        });
      if (nshut > 0 && temps.size() >= 2)
      {
        int q = 1 + rng.below((int)temps.size());
        th.emplace_back([&, q]() {
          emit({{"e", "DownCall"}, {"r", q}});
          readers[(size_t)q - 1]->Shutdown();
          emit({{"e", "DownRet"}, {"r", q}});
        });
      }
      for (auto &t : th)
        t.join();
      for (int r = 1; r <= (int)temps.size(); ++r)
        collect(r, true);
      emit({{"e", "End"}});
    });
    std::cout << cfgev.dump() << "\n";
    for (auto &l : vs::log_lines())
      std::cout << l << "\n";
    (void)res;
    execs++;
  }
  std::cout << "{\"e\":\"Summary\",\"executions\":" << execs << "}" << std::endl;
  return 0;
}
