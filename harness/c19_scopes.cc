// C19 / scopes: the scope configurator and provider identity, for TracerProvider, MeterProvider and
// LoggerProvider alike.
//
//  replay (spec -> code): behaviours printed by TLC from spec/ScopeConfig.tla
//    Input : ndjson {"id","signal","rules":[{"m":{"k","v"},"en"}..],"dflt",
//                    "steps":[{"op":"get","scope":{name,version,schema,attr},"cmp":[h..]} | {"op":"emit","h":h}..]}
//    Output: ndjson {"id","inst","res":[{"same":[h..]} | {"appeared":"yes"|"no"|"wrongscope"|"many"}..]}
//      same     = those handles of `cmp` (1-based indices of earlier get steps) that are the SAME object
//      appeared = whether exactly one new item of telemetry arrived under the scope of the handle
//  record (code -> spec): long random histories over 14 scope identities, logged as ndjson events
//    {"e":"Cfg",signal,rules,dflt} {"e":"Get",scope,"eq":[h..]} {"e":"Emit","h","appeared":bool}
//    and validated by spec/ScopeConfigTrace.tla.
//
// Concretisation (struct Conc, 5 variants by seed): the EMPTY name / version / schema stays the empty string
// (Get*("", ..)); scope name token N -> "lib"+N | "io.example."+lower(N) |
// mutually prefixing names | two tables of RELATED identities whose name+version+schema concatenations
// coincide; version
// and schema as given ("s" -> https://example.test/s), attr "a" -> {"scope.attr": "a"}; the strings
// are passed as NON-terminated views into heap blocks that are overwritten and freed after the call.
// Rules: name -> AddConditionNameEquals, ver/any/none -> AddCondition(lambda).
// Emit: trace = StartSpan(unique name)->End() seen by a SpanExporter behind a SimpleSpanProcessor;
// metrics = a fresh UInt64 counter +1, then a pull reader collects; logs = EmitLogRecord seen by a
// LogRecordProcessor.
#include "c19_common.h"

#include "opentelemetry/logs/logger.h"
#include "opentelemetry/sdk/instrumentationscope/scope_configurator.h"
#include "opentelemetry/sdk/logs/logger_config.h"
#include "opentelemetry/sdk/logs/logger_provider.h"
#include "opentelemetry/sdk/logs/processor.h"
#include "opentelemetry/sdk/logs/read_write_log_record.h"
#include "opentelemetry/sdk/metrics/meter_config.h"
#include "opentelemetry/sdk/trace/exporter.h"
#include "opentelemetry/sdk/trace/simple_processor.h"
#include "opentelemetry/sdk/trace/span_data.h"
#include "opentelemetry/sdk/trace/tracer_config.h"
#include "opentelemetry/sdk/trace/tracer_provider.h"
#include "opentelemetry/trace/tracer.h"

namespace c19
{
namespace
{
namespace sc   = opentelemetry::sdk::instrumentationscope;
namespace sdkt = opentelemetry::sdk::trace;
namespace sdkl = opentelemetry::sdk::logs;

struct Scope
{
  std::string name, version, schema, attr;
};
struct Item  // one unit of telemetry as seen at the exporter / reader
{
  std::string what, name, version, schema;
};

// Concretisation of the abstract scope identity tokens.  Per field the map is injective, so distinct
// abstract identities stay distinct tuples; variants 3 and 4 make the identities RELATED: the
// concatenations name+version+schema of different identities coincide (("a","b","c") / ("ab","","c") /
// ("a","","bc") / ("abc","",""); ("db","2") / ("db2","")), fields are prefixes of one another, and
// the empty version/schema stays empty.
struct Conc
{
  int variant;
  static int idx(const std::string &n) { return n.empty() ? 0 : (n[0] - 'A') % 6; }
  std::string name(const std::string &n) const
  {
    static const char *abc[6] = {"a", "ab", "abc", "b", "bc", "c"};
    static const char *db[6]  = {"db", "db2", "db2.1", "d", "b2", "db21"};
    if (n.empty())  // no name given: Get*("") in every variant
      return "";
    if (variant == 0)
      return "lib" + n;
    if (variant == 2)  // names that are prefixes of one another
      return std::string("svc.a.b.c.d.e.f").substr(0, 5 + 2 * static_cast<size_t>(idx(n)));
    if (variant == 3)
      return abc[idx(n)];
    if (variant == 4)
      return db[idx(n)];
    std::string l = n;
    for (auto &ch : l)
      ch = static_cast<char>(tolower(ch));
    return "io.example." + l;
  }
  std::string version(const std::string &v) const
  {
    if (v.empty() || variant < 3)
      return v;
    if (variant == 3)
      return v == "1.0" ? "b" : "bc";
    return v == "1.0" ? "2" : "2.1";
  }
  std::string schema(const std::string &s) const
  {
    if (s.empty())
      return "";
    if (variant == 3)
      return s == "s" ? "c" : "bc";
    if (variant == 4)
      return s == "s" ? ".1" : "1";
    return "https://example.test/" + s;
  }
};
static const int kConcVariants = 5;
static const char *kLoggerName  = "c19-logger";

template <class Config>
std::unique_ptr<sc::ScopeConfigurator<Config>> build_configurator(const json &rules, bool dflt, const Conc &cc)
{
  typename sc::ScopeConfigurator<Config>::Builder b(dflt ? Config::Enabled() : Config::Disabled());
  for (auto &r : rules)
  {
    Config cfg    = r["en"].get<bool>() ? Config::Enabled() : Config::Disabled();
    std::string k = r["m"]["k"], v = r["m"]["v"];
    if (k == "name")
    {
      Buf nb(cc.name(v), "good", "xx");
      b.AddConditionNameEquals(nb.view(), cfg);
    }
    else if (k == "ver")
    {
      std::string cv = cc.version(v);
      b.AddCondition([cv](const sc::InstrumentationScope &s) { return s.GetVersion() == cv; }, cfg);
    }
    else if (k == "any")
      b.AddCondition([](const sc::InstrumentationScope &) { return true; }, cfg);
    else
      b.AddCondition([](const sc::InstrumentationScope &) { return false; }, cfg);
  }
  return std::unique_ptr<sc::ScopeConfigurator<Config>>(new sc::ScopeConfigurator<Config>(b.Build()));
}

class CapSpanExporter : public sdkt::SpanExporter
{
public:
  explicit CapSpanExporter(std::vector<Item> *sink) : sink_(sink) {}
  std::unique_ptr<sdkt::Recordable> MakeRecordable() noexcept override
  {
    return std::unique_ptr<sdkt::Recordable>(new sdkt::SpanData());
  }
  opentelemetry::sdk::common::ExportResult Export(const ns::span<std::unique_ptr<sdkt::Recordable>> &spans) noexcept override
  {
    for (auto &r : spans)
    {
      auto *d  = static_cast<sdkt::SpanData *>(r.get());
      auto &sp = d->GetInstrumentationScope();
      sink_->push_back({std::string(d->GetName()), sp.GetName(), sp.GetVersion(), sp.GetSchemaURL()});
    }
    return opentelemetry::sdk::common::ExportResult::kSuccess;
  }
  bool ForceFlush(std::chrono::microseconds) noexcept override { return true; }
  bool Shutdown(std::chrono::microseconds) noexcept override { return true; }

private:
  std::vector<Item> *sink_;
};

class CapLogProcessor : public sdkl::LogRecordProcessor
{
public:
  explicit CapLogProcessor(std::vector<Item> *sink) : sink_(sink) {}
  std::unique_ptr<sdkl::Recordable> MakeRecordable() noexcept override
  {
    return std::unique_ptr<sdkl::Recordable>(new sdkl::ReadWriteLogRecord());
  }
  void OnEmit(std::unique_ptr<sdkl::Recordable> &&rec) noexcept override
  {
    auto *r  = static_cast<sdkl::ReadWriteLogRecord *>(rec.get());
    auto &sp = r->GetInstrumentationScope();
    std::string body;
    if (ns::holds_alternative<ns::string_view>(r->GetBody()))
      body = std::string(ns::get<ns::string_view>(r->GetBody()));
    else if (ns::holds_alternative<const char *>(r->GetBody()))
      body = ns::get<const char *>(r->GetBody());
    sink_->push_back({body, sp.GetName(), sp.GetVersion(), sp.GetSchemaURL()});
  }
  bool ForceFlush(std::chrono::microseconds) noexcept override { return true; }
  bool Shutdown(std::chrono::microseconds) noexcept override { return true; }

private:
  std::vector<Item> *sink_;
};

// system under test: a provider of one signal plus the capture behind it
struct Sut
{
  std::string signal;
  Conc cc;
  std::vector<Item> sink;
  std::unique_ptr<sdkt::TracerProvider> tp;
  std::unique_ptr<sdkm::MeterProvider> mp;
  std::shared_ptr<PullReader> reader;
  std::unique_ptr<sdkl::LoggerProvider> lp;
  std::vector<ns::shared_ptr<opentelemetry::trace::Tracer>> tracers;
  std::vector<ns::shared_ptr<api::Meter>> meters;
  std::vector<ns::shared_ptr<opentelemetry::logs::Logger>> loggers;
  std::vector<Scope> scopes;  // scope of every handle
  std::vector<ns::unique_ptr<api::Counter<uint64_t>>> counters;
  size_t emits = 0;

  Sut(const std::string &sig, const json &rules, bool dflt, Conc c) : signal(sig), cc(c)
  {
    if (signal == "trace")
    {
      std::unique_ptr<sdkt::SpanProcessor> proc(
          new sdkt::SimpleSpanProcessor(std::unique_ptr<sdkt::SpanExporter>(new CapSpanExporter(&sink))));
      tp.reset(new sdkt::TracerProvider(std::move(proc), opentelemetry::sdk::resource::Resource::Create({}),
                                        std::unique_ptr<sdkt::Sampler>(new sdkt::AlwaysOnSampler),
                                        std::unique_ptr<sdkt::IdGenerator>(new sdkt::RandomIdGenerator()),
                                        build_configurator<sdkt::TracerConfig>(rules, dflt, cc)));
    }
    else if (signal == "metrics")
    {
      mp.reset(new sdkm::MeterProvider(std::unique_ptr<sdkm::ViewRegistry>(new sdkm::ViewRegistry()),
                                       opentelemetry::sdk::resource::Resource::Create({}),
                                       build_configurator<sdkm::MeterConfig>(rules, dflt, cc)));
      reader = std::make_shared<PullReader>(false);
      mp->AddMetricReader(reader);
    }
    else
    {
      lp.reset(new sdkl::LoggerProvider(std::unique_ptr<sdkl::LogRecordProcessor>(new CapLogProcessor(&sink)),
                                        opentelemetry::sdk::resource::Resource::Create({}),
                                        build_configurator<sdkl::LoggerConfig>(rules, dflt, cc)));
    }
  }

  const void *ptr(size_t h) const
  {
    if (signal == "trace")
      return tracers[h].get();
    if (signal == "metrics")
      return meters[h].get();
    return loggers[h].get();
  }
  size_t nhandles() const { return scopes.size(); }

  void get(const Scope &s, Rng &rng)
  {
    // the arguments live in heap blocks, (seeded) not terminated at the end of the view, and are
    // overwritten and freed right after the call
    Buf nb(cc.name(s.name), rng.below(2) ? "good" : "z", "!!"), vb(cc.version(s.version), rng.below(2) ? "good" : "z", "9"),
        sb(cc.schema(s.schema), rng.below(2) ? "good" : "z", "/x");
    if (signal == "trace")
      tracers.push_back(tp->GetTracer(nb.view(), vb.view(), sb.view()));
    else if (signal == "metrics")
      meters.push_back(mp->GetMeter(nb.view(), vb.view(), sb.view()));
    else
    {
      std::vector<std::pair<std::string, std::string>> attrs;
      if (!s.attr.empty())
        attrs.emplace_back("scope.attr", s.attr);
      loggers.push_back(lp->GetLogger(kLoggerName, nb.view(), vb.view(), sb.view(),
                                      opentelemetry::common::KeyValueIterableView<decltype(attrs)>(attrs)));
    }
    scopes.push_back(s);
  }

  // "yes" exactly one new item under the handle's scope | "no" nothing new | "wrongscope" | "many"
  std::string emit(size_t h)
  {
    std::string uniq = "c19.item" + std::to_string(++emits);
    std::vector<Item> fresh;
    if (signal == "trace")
    {
      size_t before = sink.size();
      auto span     = tracers[h]->StartSpan(uniq);
      span->End();
      span = ns::shared_ptr<opentelemetry::trace::Span>();
      for (size_t i = before; i < sink.size(); ++i)
        fresh.push_back(sink[i]);
    }
    else if (signal == "logs")
    {
      size_t before = sink.size();
      loggers[h]->EmitLogRecord(opentelemetry::logs::Severity::kInfo, ns::string_view(uniq));
      for (size_t i = before; i < sink.size(); ++i)
        fresh.push_back(sink[i]);
    }
    else
    {
      counters.push_back(meters[h]->CreateUInt64Counter(uniq, "d", "1"));
      counters.back()->Add(1);
      for (auto &c : collect(*reader))
        if (c.md.instrument_descriptor.name_ == uniq)
          fresh.push_back({uniq, c.scope_name, c.scope_version, c.scope_schema});
    }
    if (fresh.empty())
      return "no";
    if (fresh.size() > 1)
      return "many";
    const Scope &s = scopes[h];
    // (a logger requested without library name: the SDK documents the logger name as the scope name;
    // the statement does not say, both are taken)
    bool name_ok = fresh[0].name == cc.name(s.name) || (signal == "logs" && s.name.empty() && fresh[0].name == kLoggerName);
    if (fresh[0].what != uniq || !name_ok || fresh[0].version != cc.version(s.version) ||
        fresh[0].schema != cc.schema(s.schema))
      return "wrongscope";
    return "yes";
  }
};

Scope scope_of(const json &j) { return {j["name"], j["version"], j["schema"], j["attr"]}; }
}  // namespace

int run_scopes(std::istream &in, uint64_t seed, int instances)
{
  std::string line;
  while (std::getline(in, line))
  {
    if (line.empty())
      continue;
    json c  = json::parse(line);
    long id = c["id"];
    for (int k = 0; k < instances; ++k)
    {
      Rng rng(mix(seed, static_cast<uint64_t>(id), static_cast<uint64_t>(k)));
      Sut sut(c["signal"], c["rules"], c["dflt"], Conc{static_cast<int>(rng.below(kConcVariants))});
      json res = json::array();
      for (auto &st : c["steps"])
      {
        if (st["op"] == "get")
        {
          sut.get(scope_of(st["scope"]), rng);
          size_t me = sut.nhandles() - 1;
          json same = json::array();
          for (auto &h : st["cmp"])
          {
            size_t hi = h.get<size_t>();
            if (hi >= 1 && hi <= me && sut.ptr(hi - 1) == sut.ptr(me))
              same.push_back(hi);
          }
          res.push_back({{"same", same}});
        }
        else
        {
          size_t h = st["h"].get<size_t>();
          res.push_back({{"appeared", sut.emit(h - 1)}});
        }
      }
      std::cout << json({{"id", id}, {"inst", k}, {"res", res}}).dump() << "\n";
    }
  }
  std::cout.flush();
  return 0;
}

// ---- recorder (code -> spec) -------------------------------------------------------------------------
int run_record(uint64_t seed, int executions, int ops)
{
  static const char *names[]    = {"A", "B", "C", "D", "E", "F"};
  static const char *versions[] = {"", "1.0", "2.0"};
  static const char *schemas[]  = {"", "s", "t"};
  static const char *signals[]  = {"trace", "metrics", "logs"};
  for (int e = 0; e < executions; ++e)
  {
    Rng rng(mix(seed, 777, static_cast<uint64_t>(e)));
    std::string signal = signals[rng.below(3)];
    // 14 scope identities of this execution
    std::vector<Scope> pool;
    while (pool.size() < 14)
    {
      // (one identity in seven has no name)
      Scope s{rng.below(7) == 0 ? "" : names[rng.below(6)], versions[rng.below(3)], schemas[rng.below(3)],
              (signal == "logs" && rng.below(4) == 0) ? "a" : ""};
      bool dup = false;
      for (auto &p : pool)
        dup = dup || (p.name == s.name && p.version == s.version && p.schema == s.schema && p.attr == s.attr);
      if (!dup)
        pool.push_back(s);
    }
    json rules = json::array();
    int nr     = static_cast<int>(rng.below(5));
    for (int i = 0; i < nr; ++i)
    {
      json m;
      switch (rng.below(6))
      {
        case 0:
        case 1:
        case 2:
          m = {{"k", "name"}, {"v", names[rng.below(6)]}};
          break;
        case 3:
          m = {{"k", "ver"}, {"v", versions[rng.below(3)]}};
          break;
        case 4:
          m = {{"k", "any"}, {"v", ""}};
          break;
        default:
          m = {{"k", "none"}, {"v", ""}};
      }
      rules.push_back({{"m", m}, {"en", rng.below(2) == 1}});
    }
    bool dflt = rng.below(3) != 0;
    std::cout << json({{"e", "Cfg"}, {"signal", signal}, {"rules", rules}, {"dflt", dflt}}).dump() << "\n";
    Sut sut(signal, rules, dflt, Conc{static_cast<int>(rng.below(kConcVariants))});
    for (int o = 0; o < ops; ++o)
    {
      if (sut.nhandles() == 0 || rng.below(5) < 2)
      {
        const Scope &s = pool[rng.below(static_cast<uint32_t>(pool.size()))];
        sut.get(s, rng);
        size_t me = sut.nhandles() - 1;
        json eq   = json::array();
        for (size_t h = 0; h < me; ++h)
          if (sut.ptr(h) == sut.ptr(me))
            eq.push_back(h + 1);
        std::cout << json({{"e", "Get"},
                           {"scope", {{"name", s.name}, {"version", s.version}, {"schema", s.schema}, {"attr", s.attr}}},
                           {"eq", eq}})
                         .dump()
                  << "\n";
      }
      else
      {
        size_t h      = rng.below(static_cast<uint32_t>(sut.nhandles()));
        std::string a = sut.emit(h);
        std::cout << json({{"e", "Emit"}, {"h", h + 1}, {"appeared", a}}).dump() << "\n";
      }
    }
  }
  std::cout.flush();
  return 0;
}
}  // namespace c19
