// Engine harness for the real BatchSpanProcessor / BatchLogRecordProcessor (unmodified sources,
// compiled against the scheduler shim).  Produces the Level-A event log validated by
// spec/BatchMonitor.tla (C01, C02, C03).
//
//   batch explore <span|log> <random|pct|dfs> <n> <seed> [scenario-spec]
//
// scenario-spec (optional, otherwise drawn from the seed per execution):
//   Q,B,np,nr,nf,ns,lat,fto,post,freeze,expfail   e.g. 2,1,2,2,1,1,1,0,1,0,0
#include "opentelemetry/sdk/logs/batch_log_record_processor.h"
#include "opentelemetry/sdk/logs/batch_log_record_processor_options.h"
#include "opentelemetry/sdk/logs/exporter.h"
#include "opentelemetry/sdk/logs/recordable.h"
#include "opentelemetry/sdk/trace/batch_span_processor.h"
#include "opentelemetry/sdk/trace/batch_span_processor_options.h"
#include "opentelemetry/sdk/trace/exporter.h"
#include "opentelemetry/sdk/trace/recordable.h"

#include "opentelemetry/sdk/common/global_log_handler.h"

#include "hcommon.h"

namespace sdktrace = opentelemetry::sdk::trace;
namespace sdklogs  = opentelemetry::sdk::logs;
namespace sdkcommon = opentelemetry::sdk::common;
namespace nostd    = opentelemetry::nostd;
using hc::emitf;

// ---- per-thread bookkeeping: which tagged records were destroyed on this thread during the
//      current producer call (=> dropped inside OnEnd/OnEmit) --------------------------------------
static thread_local bool t_in_call = false;
static thread_local std::vector<int> *t_destroyed = nullptr;
static int g_live = 0;

struct Tag
{
  int id = -1;  // p*100+s
  Tag() { g_live++; }
  ~Tag()
  {
    g_live--;
    if (t_in_call && t_destroyed)
      t_destroyed->push_back(id);
  }
};

struct Scenario
{
  int Q = 2, B = 1, np = 1, nr = 2, nf = 1, ns = 1;
  int lat     = 1;  // scheduling points inside Export
  int fto     = 0;  // flusher timeout class: 0 = zero ("infinite"), 1 = 1ms, 2 = 12ms, 3 = max
  int post    = 1;  // calls after shutdown returned
  int freeze  = 0;  // first Export blocks until every producer has finished (producers never wait)
  int expfail = 0;  // exporter results: 0 all succeed, 1 scheduler-chosen failures
  int destroy = 0;  // 1: nobody calls Shutdown, the destructor does
  int sto     = 0;  // Shutdown timeout class: 0 = default argument, 1 = 30us, 2 = 1ms, 3 = explicit zero
  int delay_ms = 5;
};

struct ExportGate
{
  std::mutex m;
  std::condition_variable cv;
  bool open = true;
};
static ExportGate *g_gate = nullptr;
static bool g_expfail     = false;
static bool g_ff_always_fails = false;  // expfail == 2: the exporter's ForceFlush always reports failure
static int g_lat          = 0;

static void export_body(const std::string &items)
{
  emitf("{\"e\":\"ExpBegin\",\"batch\":[%s]}", items.c_str());
  if (g_gate)
  {
    std::unique_lock<std::mutex> lk(g_gate->m);
    while (!g_gate->open)
      g_gate->cv.wait(lk);
  }
  for (int i = 0; i < g_lat; ++i)
    vs::point(vs::K_USER, nullptr);
}

// ---- span side ----------------------------------------------------------------------------------------
struct VSpanRec final : public sdktrace::Recordable
{
  Tag tag;
  void SetIdentity(const opentelemetry::trace::SpanContext &, opentelemetry::trace::SpanId) noexcept override {}
  void SetAttribute(nostd::string_view, const opentelemetry::common::AttributeValue &) noexcept override {}
  void AddEvent(nostd::string_view, opentelemetry::common::SystemTimestamp,
                const opentelemetry::common::KeyValueIterable &) noexcept override {}
  void AddLink(const opentelemetry::trace::SpanContext &, const opentelemetry::common::KeyValueIterable &) noexcept override {}
  void SetStatus(opentelemetry::trace::StatusCode, nostd::string_view) noexcept override {}
  void SetName(nostd::string_view) noexcept override {}
  void SetSpanKind(opentelemetry::trace::SpanKind) noexcept override {}
  void SetResource(const opentelemetry::sdk::resource::Resource &) noexcept override {}
  void SetStartTime(opentelemetry::common::SystemTimestamp) noexcept override {}
  void SetDuration(std::chrono::nanoseconds) noexcept override {}
  void SetInstrumentationScope(const sdktrace::InstrumentationScope &) noexcept override {}
};

struct VSpanExporter final : public sdktrace::SpanExporter
{
  std::unique_ptr<sdktrace::Recordable> MakeRecordable() noexcept override
  {
    return std::unique_ptr<sdktrace::Recordable>(new VSpanRec());
  }
  sdkcommon::ExportResult Export(const nostd::span<std::unique_ptr<sdktrace::Recordable>> &spans) noexcept override
  {
    std::string items;
    for (auto &r : spans)
    {
      int id = r ? static_cast<VSpanRec *>(r.get())->tag.id : -1;
      items += (items.empty() ? "" : ",") + std::to_string(id);
    }
    export_body(items);
    // exporter result: success (default), kFailure, or kFailureFull ("could not take the batch")
    int res = g_expfail ? vs::choose(3) : 0;
    emitf("{\"e\":\"ExpEnd\",\"ok\":%s}", res ? "false" : "true");
    return res == 0 ? sdkcommon::ExportResult::kSuccess
                    : (res == 1 ? sdkcommon::ExportResult::kFailure : sdkcommon::ExportResult::kFailureFull);
  }
  bool ForceFlush(std::chrono::microseconds) noexcept override
  {
    vs::point(vs::K_USER, nullptr);
    bool fail = g_ff_always_fails || (g_expfail && vs::choose(2) == 1);
    emitf("{\"e\":\"ExpFF\",\"ok\":%s}", fail ? "false" : "true");
    return !fail;
  }
  bool Shutdown(std::chrono::microseconds) noexcept override
  {
    vs::point(vs::K_USER, nullptr);
    emitf("{\"e\":\"ExpSD\"}");
    return true;
  }
};

struct PeerSpan : public sdktrace::BatchSpanProcessor
{
  using sdktrace::BatchSpanProcessor::BatchSpanProcessor;
  long consumed() { return (long)buffer_.consumption_count(); }
};

struct SpanKind
{
  typedef PeerSpan Proc;
  static const char *name() { return "span"; }
  static std::unique_ptr<Proc> make(const Scenario &sc)
  {
    sdktrace::BatchSpanProcessorOptions o;
    o.max_queue_size        = (size_t)sc.Q;
    o.max_export_batch_size = (size_t)sc.B;
    o.schedule_delay_millis = std::chrono::milliseconds(sc.delay_ms);
    return std::unique_ptr<Proc>(new Proc(std::unique_ptr<sdktrace::SpanExporter>(new VSpanExporter()), o));
  }
  // returns true iff the caller still owns the record after the call
  static bool submit(Proc &p, int id)
  {
    std::unique_ptr<sdktrace::Recordable> r = p.MakeRecordable();
    static_cast<VSpanRec *>(r.get())->tag.id = id;
    p.OnEnd(std::move(r));
    return r != nullptr;
  }
};

// ---- log side -------------------------------------------------------------------------------------------
struct VLogRec final : public sdklogs::Recordable
{
  Tag tag;
  void SetTimestamp(opentelemetry::common::SystemTimestamp) noexcept override {}
  void SetObservedTimestamp(opentelemetry::common::SystemTimestamp) noexcept override {}
  void SetSeverity(opentelemetry::logs::Severity) noexcept override {}
  void SetBody(const opentelemetry::common::AttributeValue &) noexcept override {}
  void SetAttribute(nostd::string_view, const opentelemetry::common::AttributeValue &) noexcept override {}
  void SetEventId(int64_t, nostd::string_view) noexcept override {}
  void SetTraceId(const opentelemetry::trace::TraceId &) noexcept override {}
  void SetSpanId(const opentelemetry::trace::SpanId &) noexcept override {}
  void SetTraceFlags(const opentelemetry::trace::TraceFlags &) noexcept override {}
  void SetResource(const opentelemetry::sdk::resource::Resource &) noexcept override {}
  void SetInstrumentationScope(const opentelemetry::sdk::instrumentationscope::InstrumentationScope &) noexcept override {}
};

struct VLogExporter final : public sdklogs::LogRecordExporter
{
  std::unique_ptr<sdklogs::Recordable> MakeRecordable() noexcept override
  {
    return std::unique_ptr<sdklogs::Recordable>(new VLogRec());
  }
  sdkcommon::ExportResult Export(const nostd::span<std::unique_ptr<sdklogs::Recordable>> &recs) noexcept override
  {
    std::string items;
    for (auto &r : recs)
    {
      int id = r ? static_cast<VLogRec *>(r.get())->tag.id : -1;
      items += (items.empty() ? "" : ",") + std::to_string(id);
    }
    export_body(items);
    // exporter result: success (default), kFailure, or kFailureFull ("could not take the batch")
    int res = g_expfail ? vs::choose(3) : 0;
    emitf("{\"e\":\"ExpEnd\",\"ok\":%s}", res ? "false" : "true");
    return res == 0 ? sdkcommon::ExportResult::kSuccess
                    : (res == 1 ? sdkcommon::ExportResult::kFailure : sdkcommon::ExportResult::kFailureFull);
  }
  bool ForceFlush(std::chrono::microseconds) noexcept override
  {
    vs::point(vs::K_USER, nullptr);
    bool fail = g_ff_always_fails || (g_expfail && vs::choose(2) == 1);
    emitf("{\"e\":\"ExpFF\",\"ok\":%s}", fail ? "false" : "true");
    return !fail;
  }
  bool Shutdown(std::chrono::microseconds) noexcept override
  {
    vs::point(vs::K_USER, nullptr);
    emitf("{\"e\":\"ExpSD\"}");
    return true;
  }
};

struct PeerLog : public sdklogs::BatchLogRecordProcessor
{
  using sdklogs::BatchLogRecordProcessor::BatchLogRecordProcessor;
  long consumed() { return (long)buffer_.consumption_count(); }
};

struct LogKind
{
  typedef PeerLog Proc;
  static const char *name() { return "log"; }
  static std::unique_ptr<Proc> make(const Scenario &sc)
  {
    sdklogs::BatchLogRecordProcessorOptions o;
    o.max_queue_size        = (size_t)sc.Q;
    o.max_export_batch_size = (size_t)sc.B;
    o.schedule_delay_millis = std::chrono::milliseconds(sc.delay_ms);
    return std::unique_ptr<Proc>(new Proc(std::unique_ptr<sdklogs::LogRecordExporter>(new VLogExporter()), o));
  }
  static bool submit(Proc &p, int id)
  {
    std::unique_ptr<sdklogs::Recordable> r = p.MakeRecordable();
    static_cast<VLogRec *>(r.get())->tag.id = id;
    p.OnEmit(std::move(r));
    return r != nullptr;
  }
};

// ---- scenario threads -----------------------------------------------------------------------------------
template <class K>
static void produce_one(typename K::Proc &proc, int p, int s)
{
  int id = p * 100 + s;
  long cons;
  {
    vs::NoYield ny;
    cons = proc.consumed();
  }
  emitf("{\"e\":\"OnEndCall\",\"p\":%d,\"s\":%d,\"cons\":%ld}", p, s, cons);
  std::vector<int> destroyed;
  t_destroyed = &destroyed;
  t_in_call   = true;
  bool kept   = K::submit(proc, id);  // `kept`: ownership stayed with the caller (record discarded)
  t_in_call   = false;
  t_destroyed = nullptr;
  // NB: when kept, the caller's unique_ptr was destroyed at the end of submit() - still inside
  // t_in_call; distinguish by `kept`.
  const char *fate = "queued";
  bool mine        = false;
  int others       = 0;
  for (int d : destroyed)
  {
    if (d == id)
      mine = true;
    else
      others++;
  }
  if (kept)
    fate = "discarded";
  else if (mine)
    fate = "dropped";
  emitf("{\"e\":\"OnEndRet\",\"p\":%d,\"s\":%d,\"fate\":\"%s\",\"others\":%d}", p, s, fate, others);
}

static std::chrono::microseconds fto_value(int cls)
{
  switch (cls)
  {
    case 0:
      return std::chrono::microseconds(0);
    case 1:
      return std::chrono::microseconds(1000);
    case 2:
      return std::chrono::microseconds(12000);
    default:
      return (std::chrono::microseconds::max)();
  }
}

template <class K>
static void run_scenario(const Scenario &sc)
{
  ExportGate gate;
  gate.open = !sc.freeze;
  g_gate    = sc.freeze ? &gate : nullptr;
  g_expfail = sc.expfail == 1;
  g_ff_always_fails = sc.expfail == 2;
  g_lat     = sc.lat;
  {
    std::unique_ptr<typename K::Proc> proc = K::make(sc);
    std::vector<std::thread> producers, others;
    int producers_left = sc.np;
    for (int p = 0; p < sc.np; ++p)
      producers.emplace_back([&, p]() {
        for (int s = 0; s < sc.nr; ++s)
          produce_one<K>(*proc, p, s);
      });
    for (int f = 0; f < sc.nf; ++f)
      others.emplace_back([&, f]() {
        int cls = (sc.fto + f) % 4;
        emitf("{\"e\":\"FFCall\",\"f\":%d,\"to\":%d}", f, cls);
        bool r = proc->ForceFlush(fto_value(cls));
        long cons;
        {
          vs::NoYield ny;  // sampled at the return, before anything else can run
          cons = proc->consumed();
        }
        emitf("{\"e\":\"FFRet\",\"f\":%d,\"r\":%s,\"cons\":%ld}", f, r ? "true" : "false", cons);
      });
    if (!sc.destroy)
      for (int s = 0; s < sc.ns; ++s)
        others.emplace_back([&, s]() {
          if (sc.freeze)
          {
            // shutdown only after the gate opened, otherwise the frozen worker cannot be joined
            std::unique_lock<std::mutex> lk(gate.m);
            while (!gate.open)
              gate.cv.wait(lk);
          }
          emitf("{\"e\":\"SDCall\",\"s\":%d}", s);
          // Shutdown drains the queue whatever timeout it is given (the statement has no exception for short
          // timeouts): finite and zero timeouts are part of the scenario space.
          bool r = sc.sto == 0   ? proc->Shutdown()
                   : sc.sto == 1 ? proc->Shutdown(std::chrono::microseconds(30))
                   : sc.sto == 2 ? proc->Shutdown(std::chrono::microseconds(1000))
                                 : proc->Shutdown(std::chrono::microseconds(0));
          emitf("{\"e\":\"SDRet\",\"s\":%d,\"r\":%s}", s, r ? "true" : "false");
        });
    for (auto &t : producers)
      t.join();
    (void)producers_left;
    if (sc.freeze)
    {
      // every producer call has returned while the worker was (possibly) frozen inside Export
      emitf("{\"e\":\"ProducersDone\"}");
      std::unique_lock<std::mutex> lk(gate.m);
      gate.open = true;
      gate.cv.notify_all();
    }
    for (auto &t : others)
      t.join();
    if (!sc.destroy)
    {
      // calls after Shutdown returned: must return promptly and without effect
      for (int i = 0; i < sc.post; ++i)
      {
        produce_one<K>(*proc, 8, i);
        emitf("{\"e\":\"FFCall\",\"f\":%d,\"to\":%d}", 50 + i, 3);
        bool r = proc->ForceFlush((std::chrono::microseconds::max)());
        emitf("{\"e\":\"FFRet\",\"f\":%d,\"r\":%s}", 50 + i, r ? "true" : "false");
        emitf("{\"e\":\"SDCall\",\"s\":%d}", 50 + i);
        bool r2 = proc->Shutdown();
        emitf("{\"e\":\"SDRet\",\"s\":%d,\"r\":%s}", 50 + i, r2 ? "true" : "false");
      }
    }
    else
    {
      emitf("{\"e\":\"SDCall\",\"s\":%d}", 99);
      proc.reset();  // shutdown by destruction
      emitf("{\"e\":\"SDRet\",\"s\":%d,\"r\":true}", 99);
    }
  }
  g_gate = nullptr;
}

static Scenario draw(uint64_t seed)
{
  std::mt19937_64 r(seed * 7919 + 17);
  Scenario sc;
  sc.Q       = 1 + (int)(r() % 4);
  sc.B       = 1 + (int)(r() % sc.Q);
  sc.np      = 1 + (int)(r() % 3);
  sc.nr      = 1 + (int)(r() % 4);
  sc.nf      = (int)(r() % 3);
  sc.ns      = 1 + (int)(r() % 2);
  sc.lat     = (int)(r() % 4);
  if (sc.lat == 3)
    sc.lat = 8;  // a slow exporter: many scheduling points inside Export
  sc.fto     = (int)(r() % 4);
  sc.post    = (int)(r() % 2);
  sc.freeze  = (r() % 8) == 0;
  sc.expfail = (int)(r() % 4);
  if (sc.expfail == 3)
    sc.expfail = 0;
  sc.destroy = (r() % 6) == 0;
  sc.delay_ms = (r() % 2) ? 5 : 1;
  if (sc.freeze)
  {
    // frozen worker: flushers with an unbounded wait would (legitimately) wait for the export
    sc.nf = 0;
  }
  sc.sto = (int)(r() % 6);  // drawn last: the other fields keep their distribution per seed
  if (sc.sto > 3)
    sc.sto = 0;
  return sc;
}

static bool parse_scenario(const char *s, Scenario &sc)
{
  int v[13] = {0};
  int n     = sscanf(s, "%d,%d,%d,%d,%d,%d,%d,%d,%d,%d,%d,%d,%d", &v[0], &v[1], &v[2], &v[3], &v[4], &v[5], &v[6], &v[7],
                     &v[8], &v[9], &v[10], &v[11], &v[12]);
  if (n < 11)
    return false;
  sc.Q = v[0]; sc.B = v[1]; sc.np = v[2]; sc.nr = v[3]; sc.nf = v[4]; sc.ns = v[5];
  sc.lat = v[6]; sc.fto = v[7]; sc.post = v[8]; sc.freeze = v[9]; sc.expfail = v[10];
  sc.destroy = n > 11 ? v[11] : 0;
  sc.sto     = n > 12 ? v[12] : 0;
  return true;
}

template <class K>
static int explore(int argc, char **argv)
{
  std::string strat = argv[3];
  long n            = atol(argv[4]);
  uint64_t seed     = strtoull(argv[5], nullptr, 10);
  Scenario fixed;
  bool have_fixed = argc > 6 && parse_scenario(argv[6], fixed);
  int bound       = argc > 7 ? atoi(argv[7]) : 2;
  hc::install();
  opentelemetry::sdk::common::internal_log::GlobalLogHandler::SetLogLevel(
      opentelemetry::sdk::common::internal_log::LogLevel::None);
  std::vector<int> tape;
  long execs = 0;
  for (long it = 0; it < n; ++it)
  {
    Scenario sc = have_fixed ? fixed : draw(seed * 1000003ULL + (uint64_t)it);
    vs::Config cfg;
    cfg.seed = seed * 1000003ULL + (uint64_t)it;
    if (strat == "random")
    {
      cfg.strategy = vs::S_RANDOM;
      cfg.p_switch = (it % 3 == 0) ? 0.2 : 0.5;
      cfg.p_timer  = (it % 2 == 0) ? 0.05 : 0.2;
    }
    else if (strat == "pct")
    {
      cfg.strategy  = vs::S_PCT;
      cfg.pct_depth = 1 + (int)(it % 4);
      cfg.pct_len   = 300;
      cfg.p_timer   = 0.05;
    }
    else
    {
      cfg.strategy       = vs::S_TAPE;
      cfg.tape           = tape;
      cfg.preempt_bound  = bound;
      cfg.p_spurious_cas = 0;
    }
    cfg.max_steps        = 30000;
    cfg.fair_extra_steps = 30000;
    char hdr[384];
    snprintf(hdr, sizeof hdr,
             "{\"e\":\"Cfg\",\"kind\":\"%s\",\"Q\":%d,\"B\":%d,\"np\":%d,\"nr\":%d,\"nf\":%d,\"ns\":%d,\"lat\":%d,\"fto\":%d,"
             "\"post\":%d,\"freeze\":%d,\"expfail\":%d,\"destroy\":%d,\"sto\":%d,\"seed\":%llu}",
             K::name(), sc.Q, sc.B, sc.np, sc.nr, sc.nf, sc.ns, sc.lat, sc.fto, sc.post, sc.freeze, sc.expfail,
             sc.destroy, sc.sto, (unsigned long long)cfg.seed);
    hc::pending_header() = hdr;
    vs::Result res = vs::run(cfg, [&]() { run_scenario<K>(sc); });
    std::cout << hdr << "\n";
    for (auto &l : vs::log_lines())
      std::cout << l << "\n";
    std::cout << "{\"e\":\"End\",\"live\":" << g_live << ",\"steps\":" << res.steps << ",\"fair\":" << (res.turned_fair ? 1 : 0)
              << "}\n";
    execs++;
    if (strat == "dfs")
    {
      if (!hc::next_tape(res.choices, tape))
      {
        std::cout << "{\"e\":\"DfsComplete\",\"executions\":" << execs << "}\n";
        break;
      }
    }
  }
  std::cout << "{\"e\":\"Summary\",\"executions\":" << execs << "}" << std::endl;
  return 0;
}

int main(int argc, char **argv)
{
  if (argc >= 6 && std::string(argv[1]) == "explore")
  {
    if (std::string(argv[2]) == "span")
      return explore<SpanKind>(argc, argv);
    return explore<LogKind>(argc, argv);
  }
  fprintf(stderr, "usage: batch explore span|log random|pct|dfs N SEED [scenario [bound]]\n");
  return 2;
}
