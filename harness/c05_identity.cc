// C05 replayer: steps behaviours of spec/SpanIdentity.tla through the real SDK tracer.
//
//   c05_identity replay <behaviours.ndjson> <seed> <counter|random>
//   c05_identity record <n> <seed> <nthr> <maxops>      (code -> spec: random programs, ndjson log)
//   c05_identity fork   <behaviours.ndjson> <seed>      (freshness of random ids across fork())
//
// Every line of the behaviour file is {"id":n,"steps":[...]} with the hist entries of the spec.  Only
// the public API is used: Tracer::StartSpan / Span::GetContext / IsRecording / End,
// Tracer::WithActiveSpan (Scope), Tracer::GetCurrentSpan, and the SpanData an exporter receives.
//
// Concretisation table (documented in design_notes/C05.md):
//   symbolic trace/span ids  -> bound on first sight; "fresh" = non-zero, never seen before in this
//                               behaviour (and, with the counting generator, issued by the generator)
//   sampler names            -> the real AlwaysOn/AlwaysOff/ParentBased/TraceIdRatioBased samplers
//                               (r0=0.0, r1=1.0, rmid=0.5) or a custom sampler returning exactly
//                               (decision, trace state)
//   tcls lo/hi               -> byte 7 of a new trace id is < 0x40 / >= 0xc0 (ratio 0.5 threshold)
//   trace state ids 0,1,2    -> "", one of two W3C headers each (seeded)
//   remote forms             -> valid | all zero | zero trace id | zero span id
//   mode sc0                 -> one of three invalid SpanContexts; ctx -> fresh Context with
//                               kSpanKey / kIsRootSpanKey (+ unrelated keys), order seeded
#include <nlohmann/json.hpp>

#include <sys/wait.h>
#include <unistd.h>
#include <condition_variable>
#include <fstream>
#include <functional>
#include <iostream>
#include <map>
#include <mutex>
#include <random>
#include <set>
#include <thread>

#include "opentelemetry/context/context.h"
#include "opentelemetry/context/runtime_context.h"
#include "opentelemetry/sdk/resource/resource.h"
#include "opentelemetry/sdk/trace/exporter.h"
#include "opentelemetry/sdk/trace/id_generator.h"
#include "opentelemetry/sdk/trace/random_id_generator.h"
#include "opentelemetry/sdk/trace/sampler.h"
#include "opentelemetry/sdk/trace/samplers/always_off.h"
#include "opentelemetry/sdk/trace/samplers/always_on.h"
#include "opentelemetry/sdk/trace/samplers/parent.h"
#include "opentelemetry/sdk/trace/samplers/trace_id_ratio.h"
#include "opentelemetry/sdk/trace/simple_processor.h"
#include "opentelemetry/sdk/trace/span_data.h"
#include "opentelemetry/sdk/trace/tracer_provider.h"
#include "opentelemetry/trace/context.h"
#include "opentelemetry/trace/default_span.h"
#include "opentelemetry/trace/scope.h"
#include "opentelemetry/trace/span_startoptions.h"
#include "opentelemetry/trace/tracer.h"

using json = nlohmann::json;
namespace api   = opentelemetry::trace;
namespace sdkt  = opentelemetry::sdk::trace;
namespace ctxns = opentelemetry::context;
namespace nostd = opentelemetry::nostd;

// ---------------------------------------------------------------------------------------------
static std::string hex(const uint8_t *p, size_t n)
{
  static const char *d = "0123456789abcdef";
  std::string s;
  for (size_t i = 0; i < n; ++i)
  {
    s += d[p[i] >> 4];
    s += d[p[i] & 15];
  }
  return s;
}
static std::string hx(const api::TraceId &t)
{
  return hex(t.Id().data(), 16);
}
static std::string hx(const api::SpanId &t)
{
  return hex(t.Id().data(), 8);
}

struct Exported
{
  std::string trace, span, parent, ts;
  int flags;
  int ctxflags;
};
struct Capture
{
  std::mutex m;
  std::vector<Exported> spans;
};

class CapExporter final : public sdkt::SpanExporter
{
public:
  explicit CapExporter(Capture *c) : cap_(c) {}
  std::unique_ptr<sdkt::Recordable> MakeRecordable() noexcept override
  {
    return std::unique_ptr<sdkt::Recordable>(new sdkt::SpanData);
  }
  opentelemetry::sdk::common::ExportResult Export(
      const nostd::span<std::unique_ptr<sdkt::Recordable>> &spans) noexcept override
  {
    for (auto &r : spans)
    {
      auto *d = static_cast<sdkt::SpanData *>(r.get());
      Exported e;
      e.trace    = hx(d->GetTraceId());
      e.span     = hx(d->GetSpanId());
      e.parent   = hx(d->GetParentSpanId());
      e.flags    = d->GetFlags().flags();
      e.ctxflags = d->GetSpanContext().trace_flags().flags();
      e.ts       = d->GetSpanContext().trace_state()->ToHeader();
      std::lock_guard<std::mutex> g(cap_->m);
      cap_->spans.push_back(e);
    }
    return opentelemetry::sdk::common::ExportResult::kSuccess;
  }
  bool ForceFlush(std::chrono::microseconds) noexcept override { return true; }
  bool Shutdown(std::chrono::microseconds) noexcept override { return true; }

private:
  Capture *cap_;
};

// ids = counters; the class of the next trace id (lo/hi half of the ratio range) is dictated by the
// behaviour; everything issued is remembered so that "fresh" can also mean "issued by the generator"
struct GenState
{
  uint64_t n = 0;
  bool hi    = false;
  uint8_t tag;
  std::set<std::string> traces, spans;
};
class CountingIdGen final : public sdkt::IdGenerator
{
public:
  CountingIdGen(GenState *g, bool is_random) : sdkt::IdGenerator(is_random), g_(g) {}
  api::SpanId GenerateSpanId() noexcept override
  {
    uint8_t b[8];
    uint64_t v = ++g_->n;
    for (int i = 0; i < 7; ++i)
      b[i] = (uint8_t)(v >> (8 * i));
    b[7] = g_->tag;
    api::SpanId id(b);
    g_->spans.insert(hx(id));
    return id;
  }
  api::TraceId GenerateTraceId() noexcept override
  {
    uint8_t b[16];
    uint64_t v = ++g_->n;
    for (int i = 0; i < 7; ++i)
      b[i] = (uint8_t)(v >> (8 * i));
    b[7] = g_->hi ? (uint8_t)(0xc0 + (v * 7) % 0x40) : (uint8_t)((v * 5) % 0x40);
    for (int i = 8; i < 16; ++i)
      b[i] = (uint8_t)(g_->tag + i);
    api::TraceId id(b);
    g_->traces.insert(hx(id));
    return id;
  }

private:
  GenState *g_;
};

class CustomSampler final : public sdkt::Sampler
{
public:
  CustomSampler(sdkt::Decision d, nostd::shared_ptr<api::TraceState> ts) : d_(d), ts_(ts) {}
  sdkt::SamplingResult ShouldSample(const api::SpanContext &,
                                    api::TraceId,
                                    nostd::string_view,
                                    api::SpanKind,
                                    const opentelemetry::common::KeyValueIterable &,
                                    const api::SpanContextKeyValueIterable &) noexcept override
  {
    return {d_, nullptr, ts_};
  }
  nostd::string_view GetDescription() const noexcept override { return "Custom"; }

private:
  sdkt::Decision d_;
  nostd::shared_ptr<api::TraceState> ts_;
};

// ---- worker threads: strictly sequential hand-off (each thread has its own RuntimeContext stack)
struct Worker
{
  std::thread th;
  std::mutex m;
  std::condition_variable cv;
  std::function<void()> job;
  bool has = false, quit = false;
};
static std::vector<std::unique_ptr<Worker>> g_workers;
// Every worker OS thread keeps a BASE frame (a Context without span, so GetCurrentSpan() is invalid as on an
// empty stack).  Scopes may be destroyed on other threads / out of order, which legitimately leaves frames of
// dead scopes behind; releasing the base token between behaviours unwinds them, and "the top of the stack
// is the base frame" (public API: RuntimeContext::GetCurrent()) tells that nothing is attached.
static thread_local nostd::unique_ptr<ctxns::Token> tl_base;
static thread_local ctxns::Context tl_base_ctx;
static void base_reset()
{
  tl_base.reset();
  tl_base_ctx = ctxns::Context{}.SetValue("c05.base", (int64_t)1);
  tl_base     = ctxns::RuntimeContext::Attach(tl_base_ctx);
}
static bool at_base()
{
  return ctxns::RuntimeContext::GetCurrent() == tl_base_ctx;
}
static void worker_main(Worker *w)
{
  std::unique_lock<std::mutex> l(w->m);
  base_reset();
  for (;;)
  {
    w->cv.wait(l, [&] { return w->has || w->quit; });
    if (w->quit)
    {
      tl_base.reset();
      return;
    }
    w->job();
    w->has = false;
    w->cv.notify_all();
  }
}
static long g_thread_generations = 0;   // OS threads created so far (measured: reported in the summary)
static long g_threads_retired    = 0;
static void ensure_worker(size_t t)     // 1-based
{
  if (g_workers.size() < t)
    g_workers.resize(t);
  if (!g_workers[t - 1])
  {
    g_workers[t - 1].reset(new Worker);
    Worker *w = g_workers[t - 1].get();
    w->th     = std::thread(worker_main, w);
    ++g_thread_generations;
  }
}
static void run_on(int t, const std::function<void()> &f)
{
  if (t <= 0)
  {
    f();
    return;
  }
  ensure_worker((size_t)t);
  Worker *w = g_workers[(size_t)t - 1].get();
  std::unique_lock<std::mutex> l(w->m);
  w->job = f;
  w->has = true;
  w->cv.notify_all();
  w->cv.wait(l, [&] { return !w->has; });
}
// The OS thread that plays model thread t FINISHES (is joined); the next operation of model thread t
// runs on a newly created OS thread - which typically receives the recycled thread id / TLS block.
// Only legal while the model thread's active-span stack is empty (the stack is thread-local).
static void retire_worker(int t)
{
  if (t <= 0 || (size_t)t > g_workers.size() || !g_workers[(size_t)t - 1])
    return;
  Worker *w = g_workers[(size_t)t - 1].get();
  {
    std::lock_guard<std::mutex> l(w->m);
    w->quit = true;
    w->cv.notify_all();
  }
  w->th.join();
  g_workers[(size_t)t - 1].reset();
  ++g_threads_retired;
}
static void stop_workers()
{
  for (size_t t = 1; t <= g_workers.size(); ++t)
    retire_worker((int)t);
  g_workers.clear();
}
// every id any RandomIdGenerator-backed tracer produced in this whole harness process (all behaviours /
// programs, all threads and thread generations): fresh means distinct from ALL of them
static std::set<std::string> g_all_traces, g_all_spans;

// ---------------------------------------------------------------------------------------------
static const char *TS1[] = {"foo=bar", "k1=v1,k2=v2"};
static const char *TS2[] = {"vendor@sys=opaque-val", "a=1,b=2,c=3"};

struct Entity
{
  nostd::shared_ptr<api::Span> span;  // DefaultSpan for remotes
  api::SpanContext ctx{false, false};
  bool remote = false;
  bool ended  = false;
  json exp;            // expectation of the start step (symbolic)
  std::string onEnd;   // yes | no | any
};

struct World
{
  uint64_t seed;
  bool random_ids;
  std::mt19937_64 rng;
  GenState gen;
  Capture cap;
  std::map<std::string, std::unique_ptr<sdkt::TracerProvider>> providers;
  std::vector<Entity> ents;
  std::map<long, std::string> trace_sym, span_sym;  // symbolic id -> concrete hex
  std::set<std::string> seen_traces, seen_spans;    // every concrete id seen so far
  std::map<int, std::unique_ptr<api::Scope>> scopes;   // live Scope objects by scope id
  std::map<int, int> scope_thread;                     // scope id -> model thread it was created on
  std::string ts_txt[3];
  bool gen_is_random;
  // lifetime of the OS thread behind each model thread: 0 long-lived, 1 sometimes replaced, 2 replaced
  // before every operation (thread-per-request); replacement only while its active-span stack is empty
  int life[8];
  bool hold[8];
  bool recycle = true;   // off where the id generator is the harness' own counter (replay with idgen=counter)

  World(uint64_t s, bool rnd) : seed(s), random_ids(rnd), rng(s * 0x9E3779B97F4A7C15ull + 12345)
  {
    gen.tag       = (uint8_t)(0x11 + rng() % 0xE0);
    gen.n         = rng() % 1000000;
    ts_txt[0]     = "";
    ts_txt[1]     = TS1[rng() % 2];
    ts_txt[2]     = TS2[rng() % 2];
    gen_is_random = rng() % 2;
    for (int i = 0; i < 8; ++i)
    {
      life[i] = (int)(rng() % 3);
      hold[i] = false;
    }
    life[1 + rng() % 3] = 2;   // at least one of the first three model threads is thread-per-operation
  }
  void maybe_recycle(int t)
  {
    if (!recycle || t <= 0 || t >= 8 || (size_t)t > g_workers.size() || !g_workers[(size_t)t - 1])
      return;
    bool base = false;
    run_on(t, [&] { base = at_base(); });
    if (!base)      // something is attached on this OS thread: it must live on
      return;
    if (hold[t])
    {
      hold[t] = false;
      return;
    }
    if (life[t] == 2 || (life[t] == 1 && rng() % 3 == 0))
      retire_worker(t);
  }

  nostd::shared_ptr<api::TraceState> ts_obj(int id)
  {
    if (id == 0)
      return (rng() % 2) ? api::TraceState::GetDefault() : api::TraceState::FromHeader("");
    return api::TraceState::FromHeader(ts_txt[id]);
  }

  std::unique_ptr<sdkt::Sampler> make_sampler(const std::string &s)
  {
    using U = std::unique_ptr<sdkt::Sampler>;
    if (s == "on")
      return U(new sdkt::AlwaysOnSampler);
    if (s == "off")
      return U(new sdkt::AlwaysOffSampler);
    if (s == "pb_on")
      return U(new sdkt::ParentBasedSampler(std::make_shared<sdkt::AlwaysOnSampler>()));
    if (s == "pb_off")
      return U(new sdkt::ParentBasedSampler(std::make_shared<sdkt::AlwaysOffSampler>()));
    if (s == "r0")
      return U(new sdkt::TraceIdRatioBasedSampler(0.0));
    if (s == "r1")
      return U(new sdkt::TraceIdRatioBasedSampler(1.0));
    if (s == "rmid")
      return U(new sdkt::TraceIdRatioBasedSampler(0.5));
    if (s.rfind("c_", 0) == 0)
    {
      auto p2             = s.rfind('_');
      std::string d       = s.substr(2, p2 - 2);
      std::string t       = s.substr(p2 + 1);
      sdkt::Decision dec  = d == "DROP" ? sdkt::Decision::DROP
                            : d == "RO" ? sdkt::Decision::RECORD_ONLY
                                        : sdkt::Decision::RECORD_AND_SAMPLE;
      nostd::shared_ptr<api::TraceState> ts;
      if (t == "0")
        ts = ts_obj(0);
      else if (t == "2")
        ts = ts_obj(2);
      return U(new CustomSampler(dec, ts));
    }
    std::cerr << "unknown sampler " << s << std::endl;
    exit(2);
  }

  sdkt::TracerProvider *provider(const std::string &s)
  {
    auto it = providers.find(s);
    if (it != providers.end())
      return it->second.get();
    std::unique_ptr<sdkt::SpanProcessor> proc(
        new sdkt::SimpleSpanProcessor(std::unique_ptr<sdkt::SpanExporter>(new CapExporter(&cap))));
    std::unique_ptr<sdkt::IdGenerator> idg;
    if (random_ids)
      idg.reset(new sdkt::RandomIdGenerator());
    else
      idg.reset(new CountingIdGen(&gen, gen_is_random));
    auto *p = new sdkt::TracerProvider(std::move(proc), opentelemetry::sdk::resource::Resource::Create({}),
                                       make_sampler(s), std::move(idg));
    providers[s].reset(p);
    return p;
  }
};


static Entity make_remote(World &w, int flags, int ts, const std::string &form, const std::string &tcls)
{
  Entity en;
  en.remote = true;
  uint8_t tb[16], sb[8];
  for (auto &b : tb)
    b = (uint8_t)(w.rng());
  for (auto &b : sb)
    b = (uint8_t)(w.rng());
  tb[0] |= 1;
  sb[0] |= 1;
  tb[7] = tcls == "hi" ? (uint8_t)(0xc0 + w.rng() % 0x40) : (uint8_t)(w.rng() % 0x40);
  if (form == "zero" || form == "notrace")
    memset(tb, 0, 16);
  if (form == "zero" || form == "nospan")
    memset(sb, 0, 8);
  en.ctx  = api::SpanContext(api::TraceId(tb), api::SpanId(sb), api::TraceFlags((uint8_t)flags), true, w.ts_obj(ts));
  en.span = nostd::shared_ptr<api::Span>(new api::DefaultSpan(en.ctx));
  return en;
}

static void make_options(World &w, const json &m, api::StartSpanOptions &opt)
{
  std::string mtype = m["type"];
  if (mtype == "sc0")
  {
    switch (w.rng() % 3)
    {
      case 0:
        opt.parent = api::SpanContext::GetInvalid();
        break;
      case 1:
        opt.parent = api::SpanContext(false, false);
        break;
      default:
        opt.parent = api::SpanContext(true, true);
    }
  }
  else if (mtype == "sc")
  {
    Entity &pe = w.ents[(size_t)m["e"].get<int>() - 1];
    opt.parent = pe.remote ? pe.ctx : pe.span->GetContext();
  }
  else if (mtype == "ctx")
  {
    ctxns::Context c;
    if (w.rng() % 2)
      c = c.SetValue("unrelated", (int64_t)7);
    bool root_first = w.rng() % 2;
    if (m["root"].get<bool>() && root_first)
      c = c.SetValue(api::kIsRootSpanKey, true);
    if (m["e"].get<int>() != 0)
      c = c.SetValue(api::kSpanKey, w.ents[(size_t)m["e"].get<int>() - 1].span);
    if (m["root"].get<bool>() && !root_first)
      c = c.SetValue(api::kIsRootSpanKey, true);
    else if (!m["root"].get<bool>() && w.rng() % 3 == 0)
      c = c.SetValue(api::kIsRootSpanKey, false);  // an explicit "not root" is the same as no marker
    opt.parent = c;
  }
}

struct Problem
{
  std::string kind;  // mismatch | alt
  std::string dev;
  std::string what;
  json got;
};

static json ctx_json(const api::SpanContext &c)
{
  return json{{"trace", hx(c.trace_id())},
              {"span", hx(c.span_id())},
              {"flags", (int)c.trace_flags().flags()},
              {"ts", c.trace_state() ? c.trace_state()->ToHeader() : std::string("<null>")},
              {"valid", c.IsValid()},
              {"remote", c.IsRemote()}};
}

// does the observed context of a just-started span agree with a (symbolic) expectation?
static bool start_matches(World &w, const json &exp, const api::SpanContext &c, bool recording, std::string &why)
{
  std::string tr = hx(c.trace_id()), sp = hx(c.span_id());
  long tsym = exp["trace"].get<long>(), ssym = exp["span"].get<long>();
  if (!c.IsValid())
  {
    why = "context of the new span is not valid";
    return false;
  }
  if (c.IsRemote())
  {
    why = "new span claims to be remote";
    return false;
  }
  auto it = w.trace_sym.find(tsym);
  if (it != w.trace_sym.end())
  {
    if (it->second != tr)
    {
      why = "trace id differs from the expected parent's trace id";
      return false;
    }
  }
  else
  {
    if (w.seen_traces.count(tr) || (w.random_ids && g_all_traces.count(tr)))
    {
      why = "expected a NEW trace id, got one that was already in use";
      return false;
    }
    if (!w.random_ids && !w.gen.traces.count(tr))
    {
      why = "new trace id was not issued by the configured IdGenerator";
      return false;
    }
  }
  if (w.span_sym.count(ssym) || w.seen_spans.count(sp) || (w.random_ids && g_all_spans.count(sp)))
  {
    why = "span id is not fresh (already produced earlier in this execution)";
    return false;
  }
  if (!w.random_ids && !w.gen.spans.count(sp))
  {
    why = "span id was not issued by the configured IdGenerator";
    return false;
  }
  if ((int)c.trace_flags().flags() != exp["flags"].get<int>())
  {
    why = "trace flags";
    return false;
  }
  std::string ts = c.trace_state() ? c.trace_state()->ToHeader() : std::string("<null>");
  if (ts != w.ts_txt[exp["ts"].get<int>()])
  {
    why = "trace state";
    return false;
  }
  if (recording != exp["rec"].get<bool>())
  {
    why = "IsRecording";
    return false;
  }
  return true;
}

// checks the exporter's view of entity e after End; returns false + why on mismatch
static bool check_export(World &w, Entity &en, std::string &why, json &got)
{
  std::string sp = hx(en.ctx.span_id());
  std::vector<Exported> mine;
  {
    std::lock_guard<std::mutex> g(w.cap.m);
    for (auto &x : w.cap.spans)
      if (x.span == sp)
        mine.push_back(x);
  }
  got = json{{"exported_records", mine.size()}};
  if (en.onEnd == "no" && !mine.empty())
  {
    why = "a span that is not recorded was exported";
    return false;
  }
  if (en.onEnd == "yes" && mine.size() != 1)
  {
    why = "a recorded and sampled span was exported " + std::to_string(mine.size()) + " times";
    return false;
  }
  if (mine.size() > 1)
  {
    why = "exported more than once";
    return false;
  }
  if (mine.size() == 1)
  {
    const Exported &x = mine[0];
    got["trace"] = x.trace;
    got["parent"] = x.parent;
    got["flags"] = x.flags;
    got["ctxflags"] = x.ctxflags;
    got["ts"] = x.ts;
    if (x.trace != hx(en.ctx.trace_id()))
    {
      why = "exported trace id differs from GetContext()";
      return false;
    }
    long psym = en.exp["parent"].get<long>();
    std::string want = psym == 0 ? std::string(16, '0') : w.span_sym[psym];
    if (x.parent != want)
    {
      why = "exported parent span id: want " + want + " got " + x.parent;
      return false;
    }
    if (x.flags != en.exp["flags"].get<int>() || x.ctxflags != en.exp["flags"].get<int>())
    {
      why = "exported trace flags";
      return false;
    }
    if (x.ts != w.ts_txt[en.exp["ts"].get<int>()])
    {
      why = "exported trace state";
      return false;
    }
  }
  return true;
}

static bool cur_ok(World &w, const json &cur, std::string &why, json &got)
{
  for (size_t t = 0; t < cur.size(); ++t)
  {
    long e = cur[t].get<long>();
    api::SpanContext c{false, false};
    run_on((int)t + 1, [&] { c = api::Tracer::GetCurrentSpan()->GetContext(); });
    if (e == 0)
    {
      if (c.IsValid())
      {
        why = "thread " + std::to_string(t + 1) + " has an active span, none expected";
        got = ctx_json(c);
        return false;
      }
    }
    else
    {
      const api::SpanContext &x = w.ents[(size_t)e - 1].ctx;
      if (!(c.trace_id() == x.trace_id() && c.span_id() == x.span_id() && c.trace_flags() == x.trace_flags()))
      {
        why = "thread " + std::to_string(t + 1) + ": active span is not the expected one";
        got = ctx_json(c);
        return false;
      }
    }
  }
  return true;
}

// Runs one behaviour; returns true if fully replayed; otherwise fills `pb` (mismatch or alternative)
static bool run_behaviour(const json &steps, uint64_t seed, bool random_ids, Problem &pb, long &nsteps,
                          long &nstarts)
{
  World w(seed, random_ids);
  w.recycle   = random_ids;
  bool ok     = true;
  size_t nthr = 1;
  size_t j    = 0;
  for (; j < steps.size() && ok; ++j)
  {
    const json &st       = steps[j];
    const std::string op = st["op"];
    nthr                 = st["cur"].size();
    ++nsteps;
    if (op == "remote")
    {
      Entity en = make_remote(w, st["flags"].get<int>(), st["ts"].get<int>(), st["form"], st["tcls"]);
      if (st["trace"].get<long>() != 0)
      {
        w.trace_sym[st["trace"].get<long>()] = hx(en.ctx.trace_id());
        w.seen_traces.insert(hx(en.ctx.trace_id()));
      }
      if (st["span"].get<long>() != 0)
      {
        w.span_sym[st["span"].get<long>()] = hx(en.ctx.span_id());
        w.seen_spans.insert(hx(en.ctx.span_id()));
      }
      w.ents.push_back(en);
    }
    else if (op == "start")
    {
      ++nstarts;
      int t              = st["t"];
      std::string s      = st["s"];
      const json &m      = st["m"];
      w.gen.hi           = st["tcls"] == "hi";
      auto tracer        = w.provider(s)->GetTracer("c05", (w.rng() % 2) ? "1.0" : "");
      api::StartSpanOptions opt;
      make_options(w, m, opt);
      opt.kind = (api::SpanKind)(w.rng() % 5);
      Entity en;
      w.maybe_recycle(t);
      run_on(t, [&] { en.span = tracer->StartSpan("s", opt); });
      en.ctx       = en.span->GetContext();
      bool rec     = en.span->IsRecording();
      std::string why;
      json got     = ctx_json(en.ctx);
      got["recording"] = rec;
      if (start_matches(w, st["exp"], en.ctx, rec, why))
      {
        en.exp   = st["exp"];
        en.onEnd = st["onEnd"];
        w.trace_sym[st["exp"]["trace"].get<long>()] = hx(en.ctx.trace_id());
        w.span_sym[st["exp"]["span"].get<long>()]   = hx(en.ctx.span_id());
        w.seen_traces.insert(hx(en.ctx.trace_id()));
        w.seen_spans.insert(hx(en.ctx.span_id()));
        if (w.random_ids)
        {
          g_all_traces.insert(hx(en.ctx.trace_id()));
          g_all_spans.insert(hx(en.ctx.span_id()));
        }
        w.ents.push_back(en);
      }
      else
      {
        ok      = false;
        pb.kind = "mismatch";
        pb.what = why;
        pb.got  = got;
        for (auto &a : st["alts"])
        {
          std::string w2;
          if (start_matches(w, a["res"], en.ctx, rec, w2))
          {
            pb.kind = "alt";
            pb.dev  = a["dev"];
            break;
          }
        }
        // leave the span to be cleaned up
        en.span->End();
        break;
      }
    }
    else if (op == "with")
    {
      int t      = st["t"];
      Entity &en = w.ents[(size_t)st["e"].get<int>() - 1];
      w.maybe_recycle(t);
      int sc = st["sc"];
      run_on(t, [&] { w.scopes[sc].reset(new api::Scope(en.span)); });
      w.scope_thread[sc] = t;
    }
    else if (op == "release")
    {
      // the Scope object sc is destroyed on thread t - whatever thread created it, in whatever order
      int t = st["t"], sc = st["sc"];
      run_on(t, [&] { w.scopes.erase(sc); });
    }
    else if (op == "end")
    {
      int t      = st["t"];
      Entity &en = w.ents[(size_t)st["e"].get<int>() - 1];
      w.maybe_recycle(t);
      run_on(t, [&] { en.span->End(); });
      en.ended = true;
      if (std::string(st["exported"]) != en.onEnd)
      {
        std::cerr << "spec inconsistency: end.exported != start.onEnd" << std::endl;
        exit(2);
      }
      std::string why;
      json got;
      if (!check_export(w, en, why, got))
      {
        ok      = false;
        pb.kind = "mismatch";
        pb.what = why;
        pb.got  = got;
        break;
      }
      // the ended span still exposes the same context
      api::SpanContext c2 = en.span->GetContext();
      if (!(c2 == en.ctx) || !c2.IsValid())
      {
        ok      = false;
        pb.kind = "mismatch";
        pb.what = "context changed by End";
        pb.got  = ctx_json(c2);
        break;
      }
    }
    if (ok)
    {
      std::string why;
      json got;
      if (!cur_ok(w, st["cur"], why, got))
      {
        ok      = false;
        pb.kind = "mismatch";
        pb.what = why;
        pb.got  = got;
        break;
      }
    }
  }
  size_t failed_at = j;
  // final sweep: end every span the behaviour left open and look at what the exporter got
  if (ok)
  {
    for (size_t i = 0; i < w.ents.size() && ok; ++i)
    {
      Entity &en = w.ents[i];
      if (en.remote || en.ended)
        continue;
      en.span->End();
      std::string why;
      json got;
      if (!check_export(w, en, why, got))
      {
        ok      = false;
        pb.kind = "mismatch";
        pb.what = "(final sweep, entity " + std::to_string(i + 1) + ") " + why;
        pb.got  = got;
        failed_at = steps.size();
      }
    }
    if (ok)
    {
      // nothing was exported that no End accounts for
      std::lock_guard<std::mutex> g(w.cap.m);
      for (auto &x : w.cap.spans)
      {
        bool found = false;
        for (auto &en : w.ents)
          if (!en.remote && hx(en.ctx.span_id()) == x.span && en.onEnd != "no")
            found = true;
        if (!found)
        {
          ok      = false;
          pb.kind = "mismatch";
          pb.what = "exporter received a span that should never be exported: " + x.span;
          failed_at = steps.size();
        }
      }
    }
  }
  // clean up: destroy the remaining Scope objects, then unwind whatever frames are left on every worker
  w.scopes.clear();
  for (size_t t = 1; t <= g_workers.size(); ++t)
    if (g_workers[t - 1])
      run_on((int)t, [] { base_reset(); });
  w.ents.clear();
  w.providers.clear();
  if (!ok)
    pb.got["step"] = failed_at;
  return ok;
}

static int cmd_replay(const char *path, uint64_t seed, bool random_ids, bool verbose)
{
  std::ifstream in(path);
  std::string line;
  long n = 0, nsteps = 0, nstarts = 0, bad = 0;
  while (std::getline(in, line))
  {
    if (line.empty())
      continue;
    json b = json::parse(line);
    Problem pb;
    ++n;
    long id = b["id"];
    if (verbose)
      std::cout << json{{"at", id}}.dump() << std::endl;
    if (!run_behaviour(b["steps"], seed * 1000003 + (uint64_t)id, random_ids, pb, nsteps, nstarts))
    {
      ++bad;
      json o{{"beh", id}, {"kind", pb.kind}, {"dev", pb.dev}, {"what", pb.what}, {"got", pb.got}};
      std::cout << o.dump() << "\n";
    }
  }
  stop_workers();
  std::cout << json{{"summary", true}, {"behaviours", n}, {"steps", nsteps}, {"starts", nstarts}, {"problems", bad},
                    {"os_threads_created", g_thread_generations}, {"os_threads_finished", g_threads_retired}}.dump()
            << std::endl;
  return 0;
}

// ---- fork: a TLC behaviour is replayed in the parent, then fork(); parent and child each start
// more spans with the RandomIdGenerator; all ids must be pairwise distinct (fresh across processes)
static int cmd_fork(const char *path, uint64_t seed, bool verbose)
{
  std::ifstream in(path);
  std::string line;
  long n = 0, bad = 0, ids = 0;
  while (std::getline(in, line))
  {
    if (line.empty())
      continue;
    json b = json::parse(line);
    ++n;
    if (verbose)
      std::cout << json{{"at", b["id"]}}.dump() << std::endl;
    // single-threaded on purpose (fork with helper threads is not defined behaviour)
    Capture cap;
    std::unique_ptr<sdkt::SpanProcessor> proc(
        new sdkt::SimpleSpanProcessor(std::unique_ptr<sdkt::SpanExporter>(new CapExporter(&cap))));
    sdkt::TracerProvider tp(std::move(proc));
    auto tracer = tp.GetTracer("c05fork");
    std::set<std::string> before;
    // the behaviour only decides how many root spans / children are started before and after
    int k_before = 0, k_after = 0;
    for (auto &st : b["steps"])
      if (st["op"] == "start")
        (k_before < 2 ? k_before : k_after)++;
    k_after += 2;
    auto gen_ids = [&](int k, std::vector<std::string> &out) {
      for (int i = 0; i < k; ++i)
      {
        api::StartSpanOptions o;
        o.parent  = api::SpanContext::GetInvalid();
        auto root = tracer->StartSpan("r", o);
        auto c    = root->GetContext();
        out.push_back("T" + hx(c.trace_id()));
        out.push_back("S" + hx(c.span_id()));
        api::StartSpanOptions o2;
        o2.parent  = c;
        auto child = tracer->StartSpan("c", o2);
        out.push_back("S" + hx(child->GetContext().span_id()));
      }
    };
    std::vector<std::string> pre, par, chi;
    gen_ids(k_before, pre);
    int fd[2];
    if (pipe(fd) != 0)
      return 2;
    pid_t pid = fork();
    if (pid == 0)
    {
      close(fd[0]);
      std::vector<std::string> mine;
      gen_ids(k_after, mine);
      std::string all;
      for (auto &s : mine)
        all += s + "\n";
      (void)!write(fd[1], all.data(), all.size());
      close(fd[1]);
      _exit(0);
    }
    close(fd[1]);
    gen_ids(k_after, par);
    std::string buf;
    char tmp[4096];
    ssize_t r;
    while ((r = read(fd[0], tmp, sizeof tmp)) > 0)
      buf.append(tmp, (size_t)r);
    close(fd[0]);
    int status = 0;
    waitpid(pid, &status, 0);
    size_t pos = 0;
    while (pos < buf.size())
    {
      size_t e = buf.find('\n', pos);
      chi.push_back(buf.substr(pos, e - pos));
      pos = e + 1;
    }
    std::set<std::string> all;
    std::string dup;
    for (auto *v : {&pre, &par, &chi})
      for (auto &s : *v)
      {
        ++ids;
        if (s.find_first_not_of('0', 1) == std::string::npos)
          dup = "zero id " + s;
        if (!all.insert(s).second)
          dup = s;
      }
    if ((int)chi.size() != 3 * k_after)
      dup = "child produced " + std::to_string(chi.size()) + " ids";
    if (!dup.empty())
    {
      ++bad;
      std::cout << json{{"beh", b["id"]}, {"kind", "mismatch"}, {"dev", ""},
                        {"what", "id not fresh across fork(): " + dup}, {"got", json{{"parent", par}, {"child", chi}}}}
                       .dump()
                << "\n";
    }
  }
  std::cout << json{{"summary", true}, {"behaviours", n}, {"ids", ids}, {"problems", bad}}.dump() << std::endl;
  return 0;
}

// ---- record: random programs on the real tracer, logged in the vocabulary of SpanIdentityTrace.tla
static const char *ALL_SAMPLERS[] = {"on", "off", "pb_on", "pb_off", "r0", "r1", "rmid", "c_DROP_n", "c_DROP_0",
                                     "c_DROP_2", "c_RO_n", "c_RO_0", "c_RO_2", "c_RS_n", "c_RS_0", "c_RS_2"};
struct Ranks
{
  std::map<std::string, int> r;
  int next = 1;
  int of(const std::string &key, bool zero)
  {
    if (zero)
      return 0;
    auto it = r.find(key);
    if (it != r.end())
      return it->second;
    return r[key] = next++;
  }
  int trace(const api::TraceId &t) { return of("T" + hx(t), !t.IsValid()); }
  int span(const api::SpanId &t) { return of("S" + hx(t), !t.IsValid()); }
};

// ids are ranked by first appearance over the WHOLE recorder run (all programs, all threads and thread
// generations, forked children): the trace spec demands that a fresh id outranks everything seen before
static int cmd_record(long nprog, uint64_t seed, int nthr, int maxops, bool random_ids, bool with_fork)
{
  Ranks rk;
  uint64_t gen_n  = 1000 + seed % 1000;   // the counting generator keeps counting across programs
  long nforks     = 0;
  for (long pi = 0; pi < nprog; ++pi)
  {
    World w(seed * 7919 + (uint64_t)pi, random_ids);
    w.gen.n   = gen_n;
    w.gen.tag = 0x5a;
    std::mt19937_64 &g = w.rng;
    std::cout << "{\"e\":\"Cfg\",\"prog\":" << pi << "}\n";
    int forks_here = 0;
    int next_scope = 0;
    int nops = 30 + (int)(g() % (uint64_t)(maxops - 29));
    int nremote = 0;
    auto tsid = [&](const std::string &h) {
      for (int i = 0; i < 3; ++i)
        if (h == w.ts_txt[i])
          return i;
      return 7;
    };
    auto cur = [&]() {
      json a = json::array();
      for (int t = 1; t <= nthr; ++t)
      {
        api::SpanContext c{false, false};
        run_on(t, [&] { c = api::Tracer::GetCurrentSpan()->GetContext(); });
        a.push_back(json::array({rk.trace(c.trace_id()), rk.span(c.span_id())}));
      }
      return a;
    };
    auto do_end = [&](int t, size_t e) {
      Entity &en = w.ents[e];
      w.maybe_recycle(t);
      run_on(t, [&] { en.span->End(); });
      en.ended       = true;
      std::string sp = hx(en.ctx.span_id());
      int n = 0;
      Exported x;
      {
        std::lock_guard<std::mutex> gl(w.cap.m);
        for (auto &y : w.cap.spans)
          if (y.span == sp)
          {
            ++n;
            x = y;
          }
      }
      api::SpanContext c2 = en.span->GetContext();
      json ev{{"e", "end"}, {"t", t}, {"en", e + 1}, {"n", n},
              {"ctx", json::array({rk.trace(c2.trace_id()), rk.span(c2.span_id())})}};
      if (n >= 1)
      {
        ev["trace"]  = rk.of("T" + x.trace, x.trace == std::string(32, '0'));
        ev["parent"] = rk.of("S" + x.parent, x.parent == std::string(16, '0'));
        ev["flags"]  = x.flags == x.ctxflags ? x.flags : 1000 + x.flags;
        ev["ts"]     = tsid(x.ts);
      }
      ev["cur"] = cur();
      std::cout << ev.dump() << "\n";
    };
    for (int k = 0; k < nops; ++k)
    {
      uint64_t r = g() % 100;
      int t      = 1 + (int)(g() % (uint64_t)nthr);
      if (w.ents.empty() && r >= 50)
        r = r % 50;
      if (r < 10)
      {
        if (nremote >= 4)
          continue;
        ++nremote;
        static const int FL[] = {0, 1, 2, 3, 255};
        static const char *FO[] = {"valid", "valid", "valid", "zero", "notrace", "nospan"};
        int fl = FL[g() % 5], ts = (int)(g() % 2);
        std::string form = FO[g() % 6], tc = (g() % 2) ? "hi" : "lo";
        Entity en = make_remote(w, fl, ts, form, tc);
        w.ents.push_back(en);
        json ev{{"e", "remote"}, {"flags", fl}, {"ts", ts}, {"form", form}, {"tcls", tc},
                {"trace", rk.trace(en.ctx.trace_id())}, {"span", rk.span(en.ctx.span_id())}};
        ev["cur"] = cur();
        std::cout << ev.dump() << "\n";
      }
      else if (r < 50)
      {
        std::string s = ALL_SAMPLERS[g() % 16];
        if (random_ids && s == "rmid")   // the 0.5-ratio decision depends on the id: only with the counting generator
          s = "pb_on";
        json m;
        uint64_t mr = g() % 100;
        size_t ne   = w.ents.size();
        if (mr < 30 || (ne == 0 && mr < 55))
          m = json{{"type", "none"}, {"e", 0}, {"root", false}};
        else if (mr < 55)
          m = json{{"type", "sc"}, {"e", 1 + g() % ne}, {"root", false}};
        else if (mr < 60)
          m = json{{"type", "sc0"}, {"e", 0}, {"root", false}};
        else
          m = json{{"type", "ctx"}, {"e", g() % (ne + 1)}, {"root", g() % 10 < 3}};
        std::string tc = (g() % 2) ? "hi" : "lo";
        w.gen.hi       = tc == "hi";
        auto tracer    = w.provider(s)->GetTracer("c05rec");
        api::StartSpanOptions opt;
        make_options(w, m, opt);
        Entity en;
        w.maybe_recycle(t);
        run_on(t, [&] { en.span = tracer->StartSpan("s", opt); });
        en.ctx = en.span->GetContext();
        json got{{"trace", rk.trace(en.ctx.trace_id())},
                 {"span", rk.span(en.ctx.span_id())},
                 {"flags", (int)en.ctx.trace_flags().flags()},
                 {"ts", tsid(en.ctx.trace_state() ? en.ctx.trace_state()->ToHeader() : std::string("<null>"))},
                 {"rec", en.span->IsRecording()},
                 {"valid", en.ctx.IsValid()},
                 {"remote", en.ctx.IsRemote()}};
        w.ents.push_back(en);
        json ev{{"e", "start"}, {"t", t}, {"s", s}, {"m", m}, {"tcls", tc}, {"got", got}};
        ev["cur"] = cur();
        std::cout << ev.dump() << "\n";
      }
      else if (r < 70)
      {
        size_t e = g() % w.ents.size();
        if (with_fork && forks_here < 2 && g() % 6 == 0)
        {
          // fork() on the OS thread of model thread t: the child starts a root span and a child span and
          // reports their contexts; the parent logs them as ordinary StartSpan events (explicit root-marked
          // Context, then explicit SpanContext of that root) and keeps wrappers of the contexts as entities.
          // The parent's next operation on t stays on the SAME OS thread (its engine state was copied).
          ++forks_here;
          ++nforks;
          auto tracer = w.provider("on")->GetTracer("c05rec");
          std::vector<json> forked_events;
          int fd[2];
          if (pipe(fd) != 0)
            return 2;
          std::cout.flush();
          run_on(t, [&] {
            pid_t pid = fork();
            if (pid == 0)
            {
              close(fd[0]);
              ctxns::Context c;
              c = c.SetValue(api::kIsRootSpanKey, true);
              api::StartSpanOptions o;
              o.parent  = c;
              auto root = tracer->StartSpan("forked-root", o);
              api::StartSpanOptions o2;
              o2.parent = root->GetContext();
              auto kid  = tracer->StartSpan("forked-child", o2);
              json out  = json::array();
              for (auto *sp : {&root, &kid})
              {
                json x     = ctx_json((*sp)->GetContext());
                x["rec"]   = (*sp)->IsRecording();
                uint8_t tb[16], sb[8];
                (*sp)->GetContext().trace_id().CopyBytesTo(tb);
                (*sp)->GetContext().span_id().CopyBytesTo(sb);
                out.push_back(x);
              }
              std::string o3 = out.dump();
              (void)!write(fd[1], o3.data(), o3.size());
              close(fd[1]);
              _exit(0);
            }
            close(fd[1]);
            std::string buf;
            char tmp[4096];
            ssize_t r2;
            while ((r2 = read(fd[0], tmp, sizeof tmp)) > 0)
              buf.append(tmp, (size_t)r2);
            close(fd[0]);
            int status = 0;
            waitpid(pid, &status, 0);
            json arr = json::parse(buf, nullptr, false);
            size_t root_e = 0;
            for (size_t i = 0; arr.is_array() && i < arr.size(); ++i)
            {
              const json &x = arr[i];
              auto unhex    = [](const std::string &h, uint8_t *out2) {
                for (size_t k = 0; k < h.size() / 2; ++k)
                  out2[k] = (uint8_t)std::stoi(h.substr(2 * k, 2), nullptr, 16);
              };
              uint8_t tb[16], sb[8];
              unhex(x["trace"], tb);
              unhex(x["span"], sb);
              Entity en;
              en.ctx    = api::SpanContext(api::TraceId(tb), api::SpanId(sb), api::TraceFlags((uint8_t)x["flags"].get<int>()),
                                           false, api::TraceState::FromHeader(std::string(x["ts"])));
              en.span   = nostd::shared_ptr<api::Span>(new api::DefaultSpan(en.ctx));
              en.remote = true;   // never ended by the program (the real span lived in the child)
              json got{{"trace", rk.trace(en.ctx.trace_id())}, {"span", rk.span(en.ctx.span_id())},
                       {"flags", x["flags"]}, {"ts", tsid(x["ts"])}, {"rec", x["rec"]}, {"valid", x["valid"]},
                       {"remote", x["remote"]}};
              json m = i == 0 ? json{{"type", "ctx"}, {"e", 0}, {"root", true}}
                              : json{{"type", "sc"}, {"e", root_e}, {"root", false}};
              w.ents.push_back(en);
              if (i == 0)
                root_e = w.ents.size();
              json ev{{"e", "start"}, {"t", t}, {"s", "on"}, {"m", m}, {"tcls", "lo"}, {"got", got}, {"forked", true}};
              forked_events.push_back(ev);
            }
          });
          for (auto &ev : forked_events)
          {
            ev["cur"] = cur();
            std::cout << ev.dump() << "\n";
          }
          w.hold[t] = true;
          continue;
        }
        if (w.scopes.size() >= 8)
          continue;
        w.maybe_recycle(t);
        int sc = ++next_scope;
        run_on(t, [&] { w.scopes[sc].reset(new api::Scope(w.ents[e].span)); });
        w.scope_thread[sc] = t;
        json ev{{"e", "with"}, {"t", t}, {"en", e + 1}, {"sc", sc}};
        ev["cur"] = cur();
        std::cout << ev.dump() << "\n";
      }
      else if (r < 85)
      {
        if (w.scopes.empty())
          continue;
        // destroy a Scope: mostly the newest one of this thread on its own thread (LIFO), otherwise ANY live
        // scope on ANY thread (out of order, already unwound, created elsewhere)
        int sc = 0;
        if (g() % 100 < 55)
        {
          for (auto &kv : w.scope_thread)
            if (kv.second == t && w.scopes.count(kv.first))
              sc = kv.first;
        }
        if (sc == 0)
        {
          auto it = w.scopes.begin();
          std::advance(it, (long)(g() % w.scopes.size()));
          sc = it->first;
          if (g() % 2)
            t = w.scope_thread[sc];
        }
        run_on(t, [&] { w.scopes.erase(sc); });
        json ev{{"e", "release"}, {"t", t}, {"sc", sc}};
        ev["cur"] = cur();
        std::cout << ev.dump() << "\n";
      }
      else
      {
        size_t e = g() % w.ents.size();
        if (w.ents[e].remote || w.ents[e].ended)
          continue;
        do_end(t, e);
      }
    }
    for (size_t e = 0; e < w.ents.size(); ++e)
      if (!w.ents[e].remote && !w.ents[e].ended)
        do_end(1 + (int)(e % (size_t)nthr), e);
    w.scopes.clear();
    for (size_t t = 1; t <= g_workers.size(); ++t)
      if (g_workers[t - 1])
        run_on((int)t, [] { base_reset(); });
    w.ents.clear();
    w.providers.clear();
    gen_n = w.gen.n;
  }
  std::cout.flush();
  stop_workers();
  std::cerr << "record-summary os_threads_created=" << g_thread_generations << " os_threads_finished=" << g_threads_retired
            << " forks=" << nforks << " distinct_ids=" << rk.next - 1 << std::endl;
  return 0;
}

int main(int argc, char **argv)
{
  if (argc >= 6 && std::string(argv[1]) == "record")
  {
    bool rnd = argc >= 7 && std::string(argv[6]) == "random";
    return cmd_record(std::stol(argv[2]), std::stoull(argv[3]), std::stoi(argv[4]), std::stoi(argv[5]), rnd,
                      rnd && argc >= 8 && std::string(argv[7]) == "fork");
  }
  if (argc >= 5 && std::string(argv[1]) == "replay")
    return cmd_replay(argv[2], std::stoull(argv[3]), std::string(argv[4]) == "random", argc >= 6);
  if (argc >= 4 && std::string(argv[1]) == "fork")
    return cmd_fork(argv[2], std::stoull(argv[3]), argc >= 5);
  std::cerr << "usage: c05_identity replay <file> <seed> counter|random | fork <file> <seed>" << std::endl;
  return 2;
}
