// C08, first clause (series identity): replays the (attribute sequence, filter) |-> Canon table that TLC
// prints from spec/AttrSetKeyMC.tla on the real FilteredOrderedAttributeMap / AttributesProcessor /
// AttributesHashMap.
//
//   c08_attrs <table.ndjson> <seed> <nconc>
//
// every line of the table: {"s": [[k,v],...] caller's sequence, "f": [allowed keys] ([0] = no filter),
//                           "c": [[k,v],...] expected canonical set (computed by TLC)}
// For `nconc` seeded concretisations (key table kt x value family vf, c06_common.h) and every line:
//   (A) MetricAttributes(iterable, processor)  projected back to abstract pairs must equal c
//   (B) processor->process(iterable)           likewise
//   (C) for every two lines with the same filter: real operator== holds exactly when their c are
//       equal, and equal c => equal GetHash()
//   (D) one AttributesHashMap per filter fed with every line once: Size() and the per-series counts
//       seen through GetAllEnteries are those of grouping the lines by c
//   (E) the same line concretised a second time (fresh buffers, other representation choices such
//       as -0.0 for +0.0, const char * for string_view) is the same set with the same hash
// Mismatches are printed as JSON lines {"kind":...}; the last line is a summary.  Nothing is decided
// here beyond equality with the values TLC computed.
#include <algorithm>
#include <fstream>
#include <iostream>
#include <set>

#include "c06_common.h"

#include "opentelemetry/sdk/metrics/aggregation/sum_aggregation.h"
#include "opentelemetry/sdk/metrics/view/attributes_processor.h"

using namespace c06;
namespace sdkm = opentelemetry::sdk::metrics;

struct Line
{
  json s, f, c;
  std::string fkey, ckey;  // canonical dumps (sorted)
};

static json sorted_set(json a)
{
  std::vector<json> v(a.begin(), a.end());
  std::sort(v.begin(), v.end());
  v.erase(std::unique(v.begin(), v.end()), v.end());
  return json(v);
}

static std::unique_ptr<sdkm::AttributesProcessor> make_processor(const json &filter, int kt)
{
  bool all = false;
  std::unordered_map<std::string, bool> allowed;
  for (auto &k : filter)
  {
    if (k.get<int>() == 0)
      all = true;
    else
      allowed[key_name(kt, k.get<int>())] = true;
  }
  if (all)
    return std::unique_ptr<sdkm::AttributesProcessor>(new sdkm::DefaultAttributesProcessor());
  return std::unique_ptr<sdkm::AttributesProcessor>(new sdkm::FilteringAttributesProcessor(allowed));
}

int main(int argc, char **argv)
{
  if (argc < 4)
  {
    std::cerr << "usage: c08_attrs <table.ndjson> <seed> <nconc>\n";
    return 2;
  }
  std::ifstream in(argv[1]);
  Rng rng((uint64_t)atoll(argv[2]));
  int nconc = atoi(argv[3]);
  std::vector<Line> lines;
  std::string ln;
  int max_k = 1;
  while (std::getline(in, ln))
  {
    if (ln.empty())
      continue;
    json j = json::parse(ln);
    Line l;
    l.s    = j.at("s");
    l.f    = sorted_set(j.at("f"));
    l.c    = sorted_set(j.at("c"));
    l.fkey = l.f.dump();
    l.ckey = l.c.dump();
    for (auto &kv : l.s)
      max_k = std::max(max_k, kv.at(0).get<int>());
    for (auto &k : l.f)
      max_k = std::max(max_k, k.get<int>());
    lines.push_back(l);
  }
  long pairs = 0, mism = 0, checks = 0;
  auto report = [&](const json &m) {
    ++mism;
    if (mism <= 50)
      std::cout << m.dump() << "\n";
  };
  std::set<std::pair<int, int>> used;
  for (int cidx = 0; cidx < nconc; ++cidx)
  {
    // concretisations 0..2 are fixed: plain strings, "one value / several representations"
    // (+0.0 / -0.0) and "easily conflated but different" (true / 1 / "1" / "" ...); the rest is drawn
    int kt = cidx < 3 ? cidx : rng.below(4);
    int vf = cidx == 0 ? 0 : cidx == 1 ? 11 : cidx == 2 ? 12 : rng.below(kNumValueFamilies);
    if (!used.insert({kt, vf}).second)
    {
      kt = (kt + 1) % 4;
      vf = (vf + 3) % kNumValueFamilies;
      used.insert({kt, vf});
    }
    std::map<std::string, std::vector<size_t>> groups;  // filter -> line indices
    for (size_t i = 0; i < lines.size(); ++i)
      groups[lines[i].fkey].push_back(i);
    for (auto &g : groups)
    {
      auto proc = make_processor(lines[g.second[0]].f, kt);
      std::vector<sdkm::MetricAttributes> real;
      sdkm::AttributesHashMap table;
      std::map<std::string, long> exp_count;
      for (size_t i : g.second)
      {
        const Line &l = lines[i];
        CallerAttrs ca, ca2;
        ca.rep = ca2.rep = &rng;
        for (auto &kv : l.s)
        {
          ca.add(kt, vf, kv.at(0).get<int>(), kv.at(1).get<int>());
          ca2.add(kt, vf, kv.at(0).get<int>(), kv.at(1).get<int>());
        }
        SeqIterable it(ca.kvs), it2(ca2.kvs);
        sdkm::MetricAttributes ma(it, proc.get());
        {
          // (E) the same sequence spelt a second time (fresh buffers, other representation choices)
          sdkm::MetricAttributes m2(it2, proc.get());
          ++checks;
          if (!(ma == m2) || ma.GetHash() != m2.GetHash())
            report({{"kind", "E: the same attribute sequence in another representation is a different set / hashes differently"},
                    {"kt", kt}, {"vf", vf}, {"s", l.s}, {"f", l.f}, {"equal", ma == m2},
                    {"same_hash", ma.GetHash() == m2.GetHash()}});
        }
        ca2.scribble_and_free();
        sdkm::MetricAttributes mb = proc->process(it);
        static_cast<sdkm::LongSumAggregation *>(
            table.GetOrSetDefault(it, proc.get(),
                                  []() {
                                    return std::unique_ptr<sdkm::Aggregation>(new sdkm::LongSumAggregation(true));
                                  }))
            ->Aggregate((int64_t)1);
        ca.scribble_and_free();  // the SDK must own what it keeps
        bool o1 = false, o2 = false;
        json pa = sorted_set(abstract_attrs(ma, kt, vf, max_k, &o1));
        json pb = sorted_set(abstract_attrs(mb, kt, vf, max_k, &o2));
        checks += 2;
        if (o1 || pa != l.c || pa.size() != ma.size())
          report({{"kind", "A: MetricAttributes(iterable, processor) differs from Canon"}, {"kt", kt}, {"vf", vf},
                  {"s", l.s}, {"f", l.f}, {"exp", l.c}, {"got", pa}});
        if (o2 || pb != l.c || pb.size() != mb.size())
          report({{"kind", "B: AttributesProcessor::process differs from Canon"}, {"kt", kt}, {"vf", vf},
                  {"s", l.s}, {"f", l.f}, {"exp", l.c}, {"got", pb}});
        if (!(ma == mb) || ma.GetHash() != mb.GetHash())
          report({{"kind", "A/B: the two construction paths give different maps or hashes"}, {"kt", kt}, {"vf", vf},
                  {"s", l.s}, {"f", l.f}});
        exp_count[l.ckey]++;
        real.push_back(std::move(ma));
      }
      for (size_t a = 0; a < real.size(); ++a)
        for (size_t b = a; b < real.size(); ++b)
        {
          ++pairs;
          const Line &la = lines[g.second[a]], &lb = lines[g.second[b]];
          bool exp_same = la.ckey == lb.ckey;
          bool got_same = real[a] == real[b];
          if (exp_same != got_same)
            report({{"kind", "C: operator== disagrees with SameSeries"}, {"kt", kt}, {"vf", vf}, {"a", la.s},
                    {"b", lb.s}, {"f", la.f}, {"exp", exp_same}, {"got", got_same}});
          if (exp_same && real[a].GetHash() != real[b].GetHash())
            report({{"kind", "C: equal sets hash differently"}, {"kt", kt}, {"vf", vf}, {"a", la.s}, {"b", lb.s},
                    {"f", la.f}});
        }
      // (D) the series table
      std::map<std::string, long> got_count;
      table.GetAllEnteries([&](const sdkm::MetricAttributes &attrs, sdkm::Aggregation &agg) {
        bool o = false;
        json k = sorted_set(abstract_attrs(attrs, kt, vf, max_k, &o));
        auto pt = nostd::get<sdkm::SumPointData>(agg.ToPoint());
        got_count[o ? std::string("OVF") : k.dump()] += (long)nostd::get<int64_t>(pt.value_);
        return true;
      });
      ++checks;
      if (table.Size() != exp_count.size() || got_count != exp_count)
        report({{"kind", "D: AttributesHashMap series differ from grouping by Canon"}, {"kt", kt}, {"vf", vf},
                {"f", lines[g.second[0]].f}, {"exp", json(exp_count)}, {"got", json(got_count)},
                {"size", table.Size()}});
    }
  }
  std::cout << json({{"summary", true}, {"lines", lines.size()}, {"pairs", pairs}, {"checks", checks},
                     {"mismatches", mism}, {"concretisations", nconc}})
                   .dump()
            << std::endl;
  return 0;
}
