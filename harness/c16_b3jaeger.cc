// C16 replayer for the real B3Propagator / B3PropagatorMultiHeader / JaegerPropagator
// (ASan + UBSan build against /repo's sources).
//
//   c16_b3jaeger replay <cases.ndjson> <seed> <n>
//       every line is one (abstract input, expected outcome) pair printed by TLC from
//       spec/B3Jaeger.tla (plus "id"); each is concretised n times (seeded), run through the real
//       propagator and compared with TLC's expectation.  One result line per case.
//   c16_b3jaeger record <seed> <n>
//       code -> spec: n random executions (byte-level mutations of documented headers; round trips
//       of random contexts), one ndjson event each, every header byte abstracted to a token, for
//       validation by spec/B3JaegerTrace.tla.
//
// Concretisation table (abstract class -> bytes), all choices seeded:
//   tid   ok32: 32 lower-case hex, non-zero | ok16: 16 hex, non-zero (expected id = 8 zero bytes + value)
//         zero32 / zero16: all '0' | otherlen: 1..31 hex digits, not 16 | long: 33..64 hex digits
//         nonhex: 32 or 16 chars, 1..3 of them ANY byte that is neither a hex digit nor the format's
//         separator (uniform over all such values; swept completely by the "sweep" cases) | empty | absent
//   sid   ok: 16 hex non-zero | zero | short: 1..15 | long: 17..40 | nonhex | empty | absent
//   smp   "1" "0" "d" | missing: field / header not sent | emptyfield: "tid-sid-" | other: one of kOtherSmp
//   par   none | p16: "-"+16 hex | junk: "-"+garbage
//   st    single: onefield (no '-') | sepdup "tid--sid.." | ws: SP/HT around | deny: "0" "1" "d"
//         jaeger: f3 (3 fields) | f5 (":"+junk appended) | ws | urlenc (':' sent as %3A)
//   j.par "0" | p16 | empty | nonhex          j.fl  hex2: the byte | hex1 | empty | nonhex | long (3..5 digits)
//   cs    lower | upper | mixed (>= 1 upper and 1 lower letter forced into the trace id)
//   both b3 and X-B3-* present: the multi headers carry DIFFERENT ids
//   caller context: empty | marker only | marker + a valid local span (rotates with the instance)
//
// Tail family (cases with "k":"t", spec section "short / truncated / separator-free header values"): the
// header value arrives as TOKENS, one per byte.  token -> bytes is the table token_of() read backwards: hex
// digits, '-', ':', '%' are one byte each, 41 = {SP, HT}, 43 = the other 229 byte values - every byte value
// has exactly one token.  The position the spec replaced ("pos") and every position holding a class token
// are expanded to ALL byte values of the class (one execution per value).  Every execution hands the value
// over as a string_view into an EXACTLY-SIZED heap block (no terminator, no slack; the empty value is a
// zero-length view at the end of a block) - and is repeated with the value FOLLOWED inside the same buffer
// by what the truncated form goes on with ("rest") or by adversarial bytes (tails of %3A / %2D escapes,
// separators, hex digits), with and without a final NUL: the two observations must be identical (a result
// that depends on bytes behind the view is an out-of-bounds read) and both must satisfy TLC's expectation.
#include <algorithm>

#include "c09_carrier.h"
#include "opentelemetry/trace/propagation/b3_propagator.h"
#include "opentelemetry/trace/propagation/jaeger.h"

using namespace vh;
namespace trace = opentelemetry::trace;
namespace ctxns = opentelemetry::context;
typedef opentelemetry::context::propagation::TextMapPropagator Propagator;

static const std::vector<std::string> kOtherSmp   = {"2", "D", "true", "false", "01", "11", "x", "00", "1 ", " 1",
                                                   std::string(1, '\0'), "\xc3\xa9", "9", "a", "f", "3", "10", "T"};

static std::string hexdigits(Rng &r, size_t n)
{
  std::string s;
  for (size_t i = 0; i < n; ++i)
    s += kLower[r.below(16)];
  return s;
}
static void from_hex(const std::string &s, uint8_t *bytes)
{
  auto hv = [](char c) { return c <= '9' ? c - '0' : c - 'a' + 10; };
  for (size_t i = 0; i < s.size() / 2; ++i)
    bytes[i] = uint8_t(hv(s[2 * i]) * 16 + hv(s[2 * i + 1]));
}
static void force_letters(Rng &r, std::string &s, uint8_t *bytes)
{
  size_t n = s.size();
  size_t a = r.below(uint32_t(n)), b = (a + 1 + r.below(uint32_t(n - 1))) % n;
  s[a]     = kLower[10 + r.below(6)];
  s[b]     = kLower[10 + r.below(6)];
  from_hex(s, bytes);
}
// sep: the format's separator (never used as the bad byte), -1 = none
static std::string nonhex_field(Rng &r, size_t n, int sep)
{
  std::string s = hexdigits(r, n);
  for (uint32_t k = bad_count(r, 3); k > 0; --k)
    s[bad_pos(r, n)] = char(bad_byte(r, BC_NONHEX, sep));
  return s;
}
// the 128-bit id a documented form denotes is returned in `id` (for ok32 / ok16)
static std::string tid_field(Rng &r, const std::string &cls, uint8_t *id, bool letters, int sep)
{
  memset(id, 0, 16);
  if (cls == "ok32")
  {
    make_ok_id(r, id, 16);
    std::string s = hexstr(id, 16);
    if (letters)
      force_letters(r, s, id);
    return s;
  }
  if (cls == "ok16")
  {
    make_ok_id(r, id + 8, 8);
    std::string s = hexstr(id + 8, 8);
    if (letters)
      force_letters(r, s, id + 8);
    return s;
  }
  if (cls == "zero32")
    return std::string(32, '0');
  if (cls == "zero16")
    return std::string(16, '0');
  if (cls == "otherlen")
  {
    uint32_t c = r.below(6);
    size_t len = c == 0 ? 31 : c == 1 ? 15 : c == 2 ? 17 : c == 3 ? 1 : r.range(1, 31);
    if (len == 16)
      len = 14;
    return hexdigits(r, len);
  }
  if (cls == "long")
  {
    uint32_t c = r.below(4);
    return hexdigits(r, c == 0 ? 33 : c == 1 ? 34 : c == 2 ? 64 : r.range(33, 64));
  }
  if (cls == "nonhex")
    return nonhex_field(r, sweep().on || r.coin() ? 32 : 16, sep);
  if (cls == "empty" || cls == "absent")
    return "";
  fprintf(stderr, "harness: unknown trace-id class %s\n", cls.c_str());
  exit(9);
}
static std::string sid_field(Rng &r, const std::string &cls, uint8_t *id, int sep)
{
  memset(id, 0, 8);
  if (cls == "ok")
  {
    make_ok_id(r, id, 8);
    return hexstr(id, 8);
  }
  if (cls == "zero")
    return std::string(16, '0');
  if (cls == "short")
  {
    uint32_t c = r.below(4);
    return hexdigits(r, c == 0 ? 15 : c == 1 ? 1 : c == 2 ? 8 : r.range(1, 15));
  }
  if (cls == "long")
  {
    uint32_t c = r.below(4);
    return hexdigits(r, c == 0 ? 17 : c == 1 ? 32 : r.range(17, 40));
  }
  if (cls == "nonhex")
    return nonhex_field(r, 16, sep);
  if (cls == "empty" || cls == "absent")
    return "";
  fprintf(stderr, "harness: unknown span-id class %s\n", cls.c_str());
  exit(9);
}
static void recase(std::string &s, const std::string &mode, Rng &r, int &forced)
{
  if (mode == "lower")
    return;
  for (auto &c : s)
  {
    if (c < 'a' || c > 'f')
      continue;
    bool up = mode == "upper" ? true : (forced == 0 ? true : forced == 1 ? false : r.coin());
    ++forced;
    if (up)
      c = char(c - 'a' + 'A');
  }
}
static std::string ws(Rng &r)
{
  std::string s;
  for (uint32_t i = r.range(1, 2); i > 0; --i)
    s += r.coin() ? ' ' : '\t';
  return s;
}
static std::string garbage(Rng &r, char sep, bool allow_empty)
{
  std::string s;
  switch (r.below(5))
  {
    case 0:
      if (allow_empty)
        return "";
      // fall through
    case 1:
      return hexdigits(r, 17);
    case 2:
      return "xyz";
    case 3:
      return hexdigits(r, 3) + std::string(1, sep) + hexdigits(r, 4);
    default:
      for (uint32_t i = r.range(1, 6); i > 0; --i)
        s += char(r.next());
      return s;
  }
}

struct Headers
{
  std::vector<std::pair<std::string, std::string>> kv;  // what goes into the carrier
  uint8_t tid[16] = {0}, sid[8] = {0};                  // ids of the source named by exp.src
  json to_json() const
  {
    json j = json::object();
    for (auto &p : kv)
      j[p.first] = esc(p.second);
    return j;
  }
};

static Headers render(const json &cs, Rng &r)
{
  Headers h;
  const json &car     = cs["car"];
  const std::string src = cs["exp"]["src"];
  if (cs["fmt"] == "b3")
  {
    const json &s = car["s"], &m = car["m"];
    if (s["p"] == "present")
    {
      uint8_t tid[16], sid[8];
      const std::string mode = s["cs"], st = s["st"], smp = s["smp"], par = s["par"];
      std::string t = tid_field(r, s["tid"], tid, mode != "lower", '-');
      std::string d = sid_field(r, s["sid"], sid, '-');
      std::string p = par == "p16" ? hexdigits(r, 16) : "";
      int forced    = 0;
      recase(t, mode, r, forced);
      recase(d, mode, r, forced);
      recase(p, mode, r, forced);
      std::string v;
      if (st == "onefield")
        v = r.coin() ? t : (r.coin() ? std::string("garbage") : t + d);
      else if (st == "deny")
        v = r.below(3) == 0 ? "0" : r.coin() ? "1" : "d";
      else
      {
        v = t + (st == "sepdup" ? "--" : "-") + d;
        if (smp != "missing")
        {
          v += "-";
          v += smp == "emptyfield" ? std::string() : smp == "other" ? r.pick(kOtherSmp) : smp;
          if (par == "p16")
            v += "-" + p;
          else if (par == "junk")
            v += "-" + garbage(r, '-', true);
        }
        if (st == "ws")
        {
          uint32_t k = r.below(3);
          v          = (k != 1 ? ws(r) : "") + v + (k != 0 ? ws(r) : "");
        }
      }
      h.kv.emplace_back("b3", v);
      if (src == "s")
      {
        memcpy(h.tid, tid, 16);
        memcpy(h.sid, sid, 8);
      }
    }
    uint8_t tid[16], sid[8];
    const std::string mode = m["cs"], smp = m["smp"];
    std::string t = tid_field(r, m["tid"], tid, mode != "lower", -1);
    std::string d = sid_field(r, m["sid"], sid, -1);
    int forced    = 0;
    recase(t, mode, r, forced);
    recase(d, mode, r, forced);
    if (m["tid"] != "absent")
      h.kv.emplace_back("X-B3-TraceId", t);
    if (m["sid"] != "absent")
      h.kv.emplace_back("X-B3-SpanId", d);
    if (smp != "missing")
      h.kv.emplace_back("X-B3-Sampled", smp == "other" ? r.pick(kOtherSmp) : smp);
    if (src == "m")
    {
      memcpy(h.tid, tid, 16);
      memcpy(h.sid, sid, 8);
    }
    return h;
  }
  const json &j = car["j"];
  if (j["p"] == "absent")
    return h;
  const std::string mode = j["cs"], st = j["st"], par = j["par"], fl = j["fl"];
  std::string t = tid_field(r, j["tid"], h.tid, mode != "lower", ':');
  std::string d = sid_field(r, j["sid"], h.sid, ':');
  std::string p = par == "0" ? "0" : par == "p16" ? hexdigits(r, 16) : par == "empty" ? "" : nonhex_field(r, sweep().on ? 16 : r.range(1, 16), ':');
  std::string f;
  if (fl == "hex2")
  {
    uint8_t b = uint8_t(j["fb"].get<int>());
    f         = hexstr(&b, 1);
  }
  else if (fl == "hex1")
    f = hexdigits(r, 1);
  else if (fl == "empty")
    f = "";
  else if (fl == "nonhex")
    f = nonhex_field(r, sweep().on ? 2 : r.range(1, 2), ':');
  else if (fl == "long")
    f = hexdigits(r, r.range(3, 5));
  else
    exit(9);
  int forced = 0;
  recase(t, mode, r, forced);
  recase(d, mode, r, forced);
  recase(p, mode, r, forced);
  recase(f, mode, r, forced);
  std::string sep = st == "urlenc" ? "%3A" : ":";
  std::string v   = st == "f3" ? t + sep + d + sep + f : t + sep + d + sep + p + sep + f;
  if (st == "f5")
    v += ":" + garbage(r, ':', true);
  if (st == "ws")
  {
    uint32_t k = r.below(3);
    v          = (k != 1 ? ws(r) : "") + v + (k != 0 ? ws(r) : "");
  }
  h.kv.emplace_back("uber-trace-id", v);
  return h;
}

static bool satisfies(const json &exp, const Obs &o, const uint8_t *tid, const uint8_t *sid)
{
  const std::string k = exp["o"];
  if (k == "accept")
    return o.kind == "valid" && o.remote && memcmp(o.tid, tid, 16) == 0 && memcmp(o.sid, sid, 8) == 0 &&
           o.sampled == exp["sampled"].get<bool>();
  if (k == "reject")
    return o.kind == "unchanged";
  if (k == "either")  // unchanged, or SOME context with non-zero ids
    return o.kind == "unchanged" || o.kind == "valid";
  fprintf(stderr, "harness: unknown outcome %s\n", k.c_str());
  exit(9);
}

static Propagator *make_prop(const std::string &fmt, int inst)
{
  if (fmt == "b3s" || (fmt == "b3" && inst % 2 == 0))
    return new trace::propagation::B3Propagator();
  if (fmt == "b3m" || fmt == "b3")
    return new trace::propagation::B3PropagatorMultiHeader();
  if (fmt == "jg")
    return new trace::propagation::JaegerPropagator();
  fprintf(stderr, "harness: unknown format %s\n", fmt.c_str());
  exit(9);
}

static Obs do_extract(Propagator &prop, const std::vector<std::pair<std::string, std::string>> &kv, const Caller &caller)
{
  Carrier car;
  for (auto &p : kv)
    car.Put(p.first, p.second);
  ctxns::Context in  = caller.ctx;
  ctxns::Context out = prop.Extract(car, in);
  car.Release();
  Caller c2 = caller;
  c2.ctx    = in;
  return observe(out, c2);
}

static json run_x(long id, int inst, const json &cs, Rng &r)
{
  Headers h     = render(cs, r);
  Caller caller = make_caller(r, inst % 3);
  json concrete = {{"headers", h.to_json()}, {"caller", inst % 3}};
  if (cs["exp"]["o"] == "accept")
  {
    concrete["tid"] = hexstr(h.tid, 16);
    concrete["sid"] = hexstr(h.sid, 8);
  }
  set_current(id, inst, concrete);
  std::unique_ptr<Propagator> prop(make_prop(cs["fmt"], inst));
  Obs o    = do_extract(*prop, h.kv, caller);
  bool ok  = satisfies(cs["exp"], o, h.tid, h.sid);
  json res = {{"ok", ok}, {"kind", o.kind}};
  if (!ok || (id & 2047) == 0)
  {
    res["concrete"] = concrete;
    res["observed"] = o.to_json();
    res["observed"]["sampled"] = o.sampled;
  }
  return res;
}

static json run_rt(long id, int inst, const json &cs, Rng &r)
{
  const json &sc = cs["sc"];
  uint8_t tid[16], sid[8];
  make_id(r, sc["tid"], tid, 16);
  make_id(r, sc["sid"], sid, 8);
  int flags     = sc["fl"].get<int>();
  json concrete = {{"fmt", cs["fmt"]}, {"tid", hexstr(tid, 16)}, {"sid", hexstr(sid, 8)}, {"flags", flags}};
  set_current(id, inst, concrete);
  trace::SpanContext c(trace::TraceId(tid), trace::SpanId(sid), trace::TraceFlags(uint8_t(flags)), r.coin());
  ctxns::Context src;
  if (inst % 2)
    src = src.SetValue(kMarkerKey, int64_t(7));
  src = trace::SetSpan(src, opentelemetry::nostd::shared_ptr<trace::Span>(new trace::DefaultSpan(c)));
  std::unique_ptr<Propagator> prop(make_prop(cs["fmt"], inst));
  Carrier car;
  prop->Inject(car, src);
  json hdr = json::object();
  for (auto &p : car.Sets())
    hdr[p.first] = esc(p.second);
  concrete["injected"] = hdr;
  set_current(id, inst, concrete);
  Caller caller = make_caller(r, inst % 3);
  Obs o         = do_extract(*prop, car.Sets(), caller);
  json res      = {{"ok", true}, {"dev", false}, {"kind", o.kind}};
  bool ideal    = satisfies(cs["ext"], o, tid, sid);
  bool deviating = !ideal && !cs["dev"].get<std::string>().empty() && satisfies(cs["extDev"], o, tid, sid);
  if (!ideal)
  {
    res["ok"]       = deviating;
    res["dev"]      = deviating;
    res["concrete"] = concrete;
    res["observed"] = o.to_json();
    res["observed"]["sampled"] = o.sampled;
  }
  else if ((id & 2047) == 0)
    res["concrete"] = concrete;
  return res;
}

// the single bad-byte site of a sweep case: its byte class, separator and number of positions
static bool sweep_site(const json &cs, ByteClass &cls, unsigned &npos, int &sep, std::string &name)
{
  if (cs["k"] != "x")
    return false;
  const json &car = cs["car"];
  int sites       = 0;
  cls             = BC_NONHEX;
  auto site       = [&](bool is, unsigned n, int sp, const char *nm) {
    if (is)
    {
      ++sites;
      npos = n;
      sep  = sp;
      name = nm;
    }
  };
  if (cs["fmt"] == "b3")
  {
    bool sp = car["s"]["p"] == "present";
    site(sp && car["s"]["tid"] == "nonhex", 32, '-', "s.tid=nonhex");
    site(sp && car["s"]["sid"] == "nonhex", 16, '-', "s.sid=nonhex");
    site(car["m"]["tid"] == "nonhex", 32, -1, "m.tid=nonhex");
    site(car["m"]["sid"] == "nonhex", 16, -1, "m.sid=nonhex");
  }
  else
  {
    site(car["j"]["tid"] == "nonhex", 32, ':', "j.tid=nonhex");
    site(car["j"]["sid"] == "nonhex", 16, ':', "j.sid=nonhex");
    site(car["j"]["par"] == "nonhex", 16, ':', "j.par=nonhex");
    site(car["j"]["fl"] == "nonhex", 2, ':', "j.fl=nonhex");
  }
  return sites == 1;
}

// ---- code -> spec: record real executions, every byte abstracted to a token -----------------------------
static int token_of(unsigned char c)
{
  if (c >= '0' && c <= '9')
    return c - '0';
  if (c >= 'a' && c <= 'f')
    return c - 'a' + 10;
  if (c >= 'A' && c <= 'F')
    return c - 'A' + 26;
  if (c == '-')
    return 40;
  if (c == ' ' || c == '\t')
    return 41;
  if (c == ':')
    return 44;
  if (c == '%')
    return 42;
  return 43;
}
static json hdr_event(const std::string *v)
{
  json a = json::array();
  if (v)
    for (unsigned char c : *v)
      a.push_back(token_of(c));
  return json{{"p", v != nullptr && !v->empty()}, {"v", a}};
}
static json nibbles(const uint8_t *p, size_t n)
{
  json a = json::array();
  for (size_t i = 0; i < n; ++i)
  {
    a.push_back(p[i] >> 4);
    a.push_back(p[i] & 15);
  }
  return a;
}
static json obs_event(const Obs &o)
{
  bool v = o.kind == "valid" || o.kind == "invalid";
  return json{{"out", o.kind},
              {"remote", o.remote},
              {"tid", v ? nibbles(o.tid, 16) : json::array()},
              {"sid", v ? nibbles(o.sid, 8) : json::array()},
              {"sampled", o.sampled}};
}
static const std::string kPool = std::string("0123456789abcdefABCDEF0011dD--::  \tgxz_.+%", 42) + std::string("\x00\x80\xff\x7f", 4);

static std::string mutate(Rng &r, std::string h)
{
  uint32_t c = r.below(100);
  uint32_t m = c < 45 ? 0 : c < 75 ? 1 : c < 92 ? 2 : r.range(3, 5);
  for (uint32_t i = 0; i < m; ++i)
  {
    size_t n = h.size();
    switch (r.below(9))
    {
      case 0:
      case 1:
        if (n)
          h[r.below(uint32_t(n))] = r.below(3) ? r.pick(kPool) : char(r.next());  // 1/3: any of the 256 byte values
        break;
      case 2:
        if (n)
          h.erase(r.below(uint32_t(n)), 1);
        break;
      case 3:
        h.insert(r.below(uint32_t(n + 1)), 1, r.below(3) ? r.pick(kPool) : char(r.next()));
        break;
      case 4:
        if (n)
          h.resize(r.coin() ? r.below(uint32_t(n)) : n - 1 - r.below(uint32_t(std::min<size_t>(n, 4))));
        break;
      case 5:
        for (uint32_t k = r.range(1, 4); k > 0; --k)
          h += r.pick(kPool);
        break;
      case 6:
        if (n)
        {
          char &ch = h[r.below(uint32_t(n))];
          if (ch >= 'a' && ch <= 'f')
            ch = char(ch - 'a' + 'A');
          else if (ch >= 'A' && ch <= 'F')
            ch = char(ch - 'A' + 'a');
        }
        break;
      case 7:
        if (n >= 16)
        {
          size_t at = r.coin() ? 0 : n - 16;  // a run of zeros over the first / last 16 bytes
          for (size_t k = 0; k < 16; ++k)
            if (h[at + k] != '-' && h[at + k] != ':')
              h[at + k] = '0';
        }
        break;
      default:
        h = (r.coin() ? " " : "") + h + (r.coin() ? " " : "\t");
    }
  }
  return h;
}
static std::string base_tid(Rng &r)
{
  uint8_t id[16];
  uint32_t k = r.below(20);
  if (k == 0)
    return std::string(r.coin() ? 32 : 16, '0');
  make_ok_id(r, id, 16);
  if (k < 8)
  {
    make_ok_id(r, id + 8, 8);
    return hexstr(id + 8, 8);
  }
  return hexstr(id, 16);
}
static std::string base_sid(Rng &r)
{
  uint8_t id[8];
  if (r.below(25) == 0)
    return std::string(16, '0');
  make_ok_id(r, id, 8);
  return hexstr(id, 8);
}

static int record(uint64_t seed, long n)
{
  return forked_loop(size_t(n), [&](size_t ii) {
    long i = long(ii);
    Rng r(mix(seed, uint64_t(i), 78));
    adversary().mode = unsigned((i / 3) % 3);
    adversary().seed = r.next();
    Caller caller = make_caller(r, int(i % 3));
    uint32_t kind = r.below(10);
    json e;
    if (kind < 5)
    {
      // B3 extraction: single only / multi only / both
      uint32_t sc = r.below(20);
      bool single = sc < 8 || sc >= 15, multi = sc >= 8;
      std::vector<std::pair<std::string, std::string>> kv;
      if (single)
      {
        std::string v = base_tid(r) + "-" + base_sid(r);
        uint32_t f    = r.below(8);
        if (f >= 2)
        {
          static const std::vector<std::string> sv = {"1", "0", "d", "1", "0", "d", "D", "true", "2", ""};
          v += "-" + (f < 7 ? sv[r.below(6)] : r.pick(sv));
          if (r.below(3) == 0)
            v += "-" + hexdigits(r, 16);
        }
        kv.emplace_back("b3", mutate(r, v));
      }
      if (multi)
      {
        if (r.below(12))
          kv.emplace_back("X-B3-TraceId", mutate(r, base_tid(r)));
        if (r.below(12))
          kv.emplace_back("X-B3-SpanId", mutate(r, base_sid(r)));
        uint32_t f = r.below(10);
        static const std::vector<std::string> sv = {"d", "true", "false", "2", "01", "D", " 1", "a"};
        if (f < 7)
          kv.emplace_back("X-B3-Sampled", f < 4 ? "1" : "0");
        else if (f == 7)
          kv.emplace_back("X-B3-Sampled", r.pick(sv));
      }
      json raw = json::object();
      for (auto &p : kv)
        raw[p.first] = esc(p.second);
      set_current(i, 0, json{{"headers", raw}});
      std::unique_ptr<Propagator> prop(make_prop("b3", int(i)));
      Obs o = do_extract(*prop, kv, caller);
      auto find = [&kv](const char *k) -> const std::string * {
        for (auto &p : kv)
          if (p.first == k)
            return &p.second;
        return nullptr;
      };
      e = {{"e", "B3"},
           {"b3", hdr_event(find("b3"))},
           {"mt", hdr_event(find("X-B3-TraceId"))},
           {"ms", hdr_event(find("X-B3-SpanId"))},
           {"mf", hdr_event(find("X-B3-Sampled"))},
           {"x", obs_event(o)},
           {"raw", raw}};
    }
    else if (kind < 8)
    {
      static const std::vector<std::string> fv = {"00", "01", "00", "01", "1", "0", "03", "ff", "2", "", "001"};
      std::string v = base_tid(r) + ":" + base_sid(r) + ":" + (r.below(3) ? std::string("0") : hexdigits(r, 16)) + ":" + r.pick(fv);
      v             = mutate(r, v);
      std::vector<std::pair<std::string, std::string>> kv;
      bool present = r.below(30) != 0;
      if (present)
        kv.emplace_back("uber-trace-id", v);
      set_current(i, 0, json{{"headers", json{{"uber-trace-id", present ? json(esc(v)) : json(nullptr)}}}});
      std::unique_ptr<Propagator> prop(make_prop("jg", 0));
      Obs o = do_extract(*prop, kv, caller);
      e     = {{"e", "JG"}, {"h", hdr_event(present ? &v : nullptr)}, {"x", obs_event(o)}, {"raw", esc(v)}};
    }
    else
    {
      static const char *fmts[] = {"b3s", "b3m", "jg"};
      std::string fmt           = fmts[r.below(3)];
      uint8_t tid[16], sid[8];
      make_ok_id(r, tid, 16);
      make_ok_id(r, sid, 8);
      uint8_t fl = uint8_t(r.next());
      set_current(i, 0, json{{"fmt", fmt}, {"tid", hexstr(tid, 16)}, {"sid", hexstr(sid, 8)}, {"flags", fl}});
      trace::SpanContext c(trace::TraceId(tid), trace::SpanId(sid), trace::TraceFlags(fl), r.coin());
      ctxns::Context src;
      src = trace::SetSpan(src, opentelemetry::nostd::shared_ptr<trace::Span>(new trace::DefaultSpan(c)));
      std::unique_ptr<Propagator> prop(make_prop(fmt, 0));
      Carrier car;
      prop->Inject(car, src);
      Obs o    = do_extract(*prop, car.Sets(), caller);
      json raw = json::object();
      for (auto &p : car.Sets())
        raw[p.first] = esc(p.second);
      e = {{"e", "RT"}, {"fmt", fmt}, {"tid", nibbles(tid, 16)}, {"sid", nibbles(sid, 8)}, {"fl", int(fl)},
           {"x", obs_event(o)}, {"raw", raw}};
    }
    std::cout << e.dump() << std::endl;
  }, [](size_t ii) { return long(ii); }, 12);
}

// ---- the tail family: token-level header values, every byte value of a class, exact-size views --------------
// the byte values of a token's class = { b : token_of(b) == tok }
static const std::vector<std::vector<unsigned char>> &token_classes()
{
  static std::vector<std::vector<unsigned char>> t;
  if (t.empty())
  {
    t.resize(64);
    for (unsigned b = 0; b < 256; ++b)
      t[size_t(token_of((unsigned char)b))].push_back((unsigned char)b);
  }
  return t;
}
static const std::vector<unsigned char> &class_of(int tok)
{
  if (tok < 0 || tok >= 64 || token_classes()[size_t(tok)].empty())
  {
    fprintf(stderr, "harness: token %d has no byte\n", tok);
    exit(9);
  }
  return token_classes()[size_t(tok)];
}

// A carrier whose Get() returns views into heap blocks that end EXACTLY where the value ends (mode 0), or
// that go on with `behind` (+ NUL in mode 1) inside the same block.  An absent header is a zero-length view
// at the end of a block.
class ViewCarrier : public opentelemetry::context::propagation::TextMapCarrier
{
public:
  struct Item
  {
    std::string key, val, behind;
    int mode;
  };
  ~ViewCarrier() override { Release(); }
  void Put(const std::string &key, const std::string &val, int mode = 0, const std::string &behind = "")
  {
    items_.push_back(Item{lower(key), val, behind, mode});
  }
  opentelemetry::nostd::string_view Get(opentelemetry::nostd::string_view key) const noexcept override
  {
    std::string k = lower(std::string(key.data(), key.size()));
    const Item *it = nullptr;
    for (auto &i : items_)
      if (i.key == k)
        it = &i;
    size_t n = it ? it->val.size() : 0;
    if (!it || it->mode == 0)
    {
      if (n == 0)
      {
        size_t pad = 1 + (bufs_.size() % 7);
        char *p    = static_cast<char *>(malloc(pad));
        memset(p, 'Z', pad);
        bufs_.emplace_back(p, pad);
        return opentelemetry::nostd::string_view(p + pad, 0);
      }
      char *p = static_cast<char *>(malloc(n));
      memcpy(p, it->val.data(), n);
      bufs_.emplace_back(p, n);
      return opentelemetry::nostd::string_view(p, n);
    }
    size_t total = n + it->behind.size() + (it->mode == 1 ? 1 : 0);
    char *p      = static_cast<char *>(malloc(total ? total : 1));
    if (n)
      memcpy(p, it->val.data(), n);
    if (!it->behind.empty())
      memcpy(p + n, it->behind.data(), it->behind.size());
    if (it->mode == 1)
      p[total - 1] = '\0';
    bufs_.emplace_back(p, total ? total : 1);
    return opentelemetry::nostd::string_view(p, n);
  }
  void Set(opentelemetry::nostd::string_view, opentelemetry::nostd::string_view) noexcept override {}
  void Release()
  {
    for (auto &b : bufs_)
    {
      memset(b.first, 0xDD, b.second);
      free(b.first);
    }
    bufs_.clear();
  }

private:
  std::vector<Item> items_;
  mutable std::vector<std::pair<char *, size_t>> bufs_;
};

static const char *const kHdrName[] = {"b3", "X-B3-TraceId", "X-B3-SpanId", "X-B3-Sampled", "uber-trace-id"};
static const char *const kHdrTag[]  = {"b3", "mt", "ms", "mf", "j"};

// what may lie behind a view when the spec gives no continuation: the tails of the separators' URL escapes,
// the separators, hex digits - followed by a little more of the same alphabet
static std::string adversarial_behind(Rng &r)
{
  static const std::vector<std::string> head = {"3A", "3a", "A", "a", "2D", "2d", "D", "%3A", "%2D", ":", "-", "0", "1",
                                                "d", "01", "00", "-1", ":1", ":0:01", "-d", "f", "10"};
  static const std::string more = "0123456789abcdef-:%3AD";
  std::string s = r.pick(head);
  for (uint32_t k = r.below(9); k > 0; --k)
    s += r.pick(more);
  return s;
}

struct TailObs
{
  Obs o;
  bool same(const TailObs &b) const
  {
    return o.kind == b.o.kind && o.remote == b.o.remote && o.sampled == b.o.sampled && memcmp(o.tid, b.o.tid, 16) == 0 &&
           memcmp(o.sid, b.o.sid, 8) == 0;
  }
};

static bool satisfies_tok(const json &exp, const Obs &o)
{
  const std::string k = exp["o"];
  if (k == "accept")
  {
    uint8_t tid[16] = {0}, sid[8] = {0};
    const json &t = exp["tid"], &s = exp["sid"];
    if (t.size() != 32 || s.size() != 16)
    {
      fprintf(stderr, "harness: accept without 32/16 id digits\n");
      exit(9);
    }
    for (size_t i = 0; i < 16; ++i)
      tid[i] = uint8_t(t[2 * i].get<int>() * 16 + t[2 * i + 1].get<int>());
    for (size_t i = 0; i < 8; ++i)
      sid[i] = uint8_t(s[2 * i].get<int>() * 16 + s[2 * i + 1].get<int>());
    return o.kind == "valid" && o.remote && memcmp(o.tid, tid, 16) == 0 && memcmp(o.sid, sid, 8) == 0 &&
           o.sampled == exp["sampled"].get<bool>();
  }
  if (k == "reject")
    return o.kind == "unchanged";
  if (k == "either")
    return o.kind == "unchanged" || o.kind == "valid";
  fprintf(stderr, "harness: unknown outcome %s\n", k.c_str());
  exit(9);
}

static std::string json_escaped(const std::string &s)  // esc() output inside a hand-written JSON string
{
  std::string o;
  for (char c : esc(s))
  {
    if (c == '\\')
      o += '\\';
    o += c;
  }
  return o;
}

// One tail case: all its executions.  Result line as replay_cases' (+ "bytes": byte values run at the
// replaced position, "execs").
static json run_tail_case(const json &cs, uint64_t seed)
{
  long id          = cs["id"].get<long>();
  long seed_id     = cs.value("seed_id", id);
  const json &tl   = cs["tl"];
  const bool jg    = cs["fmt"] == "jg";
  const std::string hk = tl["h"];
  const int swept  = jg ? 4 : hk == "b3" ? 0 : hk == "mt" ? 1 : hk == "ms" ? 2 : 3;
  const int cut = tl["cut"].get<int>(), pos = tl["pos"].get<int>();
  const json &car  = cs["car"];
  std::vector<int> v = car[kHdrTag[swept]]["v"].get<std::vector<int>>();
  if (int(v.size()) != cut || pos > cut)
  {
    fprintf(stderr, "harness: tail case %ld: value has %zu tokens, cut %d, pos %d\n", id, v.size(), cut, pos);
    exit(9);
  }
  Rng r(mix(seed, uint64_t(seed_id), 4242));
  // the companions (exact bytes; their class tokens, if any, drawn once)
  std::vector<std::pair<int, std::string>> comp;
  if (!jg)
    for (int h = 0; h < 4; ++h)
      if (h != swept && car[kHdrTag[h]]["p"].get<bool>())
      {
        std::string s;
        for (int t : car[kHdrTag[h]]["v"].get<std::vector<int>>())
          s += char(r.pick(class_of(t)));
        comp.emplace_back(h, s);
      }
  std::string rest;
  for (int t : cs["rest"].get<std::vector<int>>())
    rest += char(class_of(t)[0]);
  // positions that are expanded: the replaced one and every one holding a class token
  const int sw = pos > 0 ? cut - pos : -1;
  size_t runs  = 1;
  std::vector<size_t> off(v.size(), 0);
  for (size_t q = 0; q < v.size(); ++q)
  {
    size_t n = class_of(v[q]).size();
    if (n > 1 || int(q) == sw)
      runs = std::max(runs, n);
    off[q] = int(q) == sw ? 0 : r.below(uint32_t(n));
  }
  json out = {{"id", id}, {"v", "ok"}};
  const std::string fmt = cs["fmt"];
  const json &exp       = cs["exp"];
  size_t execs = 0, bytes = 0;
  int valid = 0, unchanged = 0;
  std::vector<bool> seen(256, false);
  static char cur[1024];
  for (size_t i = 0; i < runs && out["v"] == "ok"; ++i)
  {
    std::string val;
    for (size_t q = 0; q < v.size(); ++q)
    {
      const auto &c = class_of(v[q]);
      val += char(c[(i + off[q]) % c.size()]);
    }
    if (sw >= 0 && !seen[(unsigned char)val[size_t(sw)]])
    {
      seen[(unsigned char)val[size_t(sw)]] = true;
      ++bytes;
    }
    // modes: 0 exact; then followed in-buffer by bytes, 1 with / 2 without a final NUL
    std::vector<int> modes = {0};
    if (runs <= 2)
    {
      modes.push_back(1);
      modes.push_back(2);
    }
    else if ((i + uint64_t(seed_id)) % 3 == 0)  // large classes: every third value (rotating with the case)
      modes.push_back(1 + int((i / 3 + uint64_t(seed_id)) % 2));
    TailObs first;
    for (size_t mi = 0; mi < modes.size(); ++mi)
    {
      int mode           = modes[mi];
      std::string behind = mode == 0 ? "" : (!rest.empty() && (mi + i) % 2 == 1) ? rest : adversarial_behind(r);
      int callerv        = int((i + uint64_t(seed_id)) % 3);
      int propi          = int(i + uint64_t(seed_id));
      snprintf(cur, sizeof cur,
               "{\"id\":%ld,\"inst\":%zu,\"v\":\"crash\",\"concrete\":{\"header\":\"%s\",\"value\":\"%s\",\"length\":%zu,"
               "\"buffer\":\"%s\",\"behind\":\"%s\",\"propagator\":\"%s\"}}",
               id, i, kHdrName[swept], json_escaped(val).c_str(), val.size(),
               mode == 0 ? "exact size" : mode == 1 ? "value+behind+NUL" : "value+behind", json_escaped(behind).c_str(),
               jg ? "Jaeger" : propi % 2 == 0 ? "B3Propagator" : "B3PropagatorMultiHeader");
      current_case() = cur;
      Rng rc(mix(seed, uint64_t(seed_id), 7 + i));  // the same caller context for every mode of this value
      Caller caller = make_caller(rc, callerv);
      std::unique_ptr<Propagator> prop(make_prop(fmt, propi));
      ViewCarrier vc;
      vc.Put(kHdrName[swept], val, mode, behind);
      for (auto &c : comp)
        vc.Put(kHdrName[c.first], c.second);
      ctxns::Context in  = caller.ctx;
      ctxns::Context res = prop->Extract(vc, in);
      vc.Release();
      Caller c2 = caller;
      c2.ctx    = in;
      TailObs t;
      t.o = observe(res, c2);
      ++execs;
      valid += t.o.kind == "valid";
      unchanged += t.o.kind == "unchanged";
      bool ok  = satisfies_tok(exp, t.o);
      bool dep = mi > 0 && !t.same(first);
      if (mi == 0)
        first = t;
      if (!ok || dep || (execs == 1 && (id & 1023) == 0))
      {
        json conc = {{"headers", json::object()}, {"buffer", mode == 0 ? "exact size" : mode == 1 ? "value+behind+NUL" : "value+behind"},
                     {"behind", esc(behind)}, {"caller", callerv}};
        conc["headers"][kHdrName[swept]] = esc(val);
        for (auto &c : comp)
          conc["headers"][kHdrName[c.first]] = esc(c.second);
        json ob      = t.o.to_json();
        ob["sampled"] = t.o.sampled;
        out["res"]   = {{"ok", ok && !dep}, {"kind", t.o.kind}, {"concrete", conc}, {"observed", ob}};
        if (dep)
        {
          json f0       = first.o.to_json();
          f0["sampled"] = first.o.sampled;
          out["res"]["depends_on_bytes_behind_the_view"] = true;
          out["res"]["observed_with_exact_buffer"]       = f0;
        }
        if (!ok || dep)
        {
          out["v"]    = "bad";
          out["inst"] = i;
          break;
        }
      }
    }
  }
  out["n"]         = execs;
  out["bytes"]     = bytes;
  out["valid"]     = valid;
  out["unchanged"] = unchanged;
  return out;
}

static int tail_cases(const char *path, uint64_t seed)
{
  auto cases = read_cases(path);
  int rc     = forked_loop(cases.size(), [&](size_t ci) { std::cout << run_tail_case(cases[ci], seed).dump() << std::endl; },
                       [&](size_t ci) { return cases[ci]["id"].get<long>(); });
  if (rc != 0)
    return rc;
  std::cout << "{\"done\":" << cases.size() << "}" << std::endl;
  return 0;
}
// a case file holds either tail cases only or none
static bool is_tail_file(const char *path)
{
  std::ifstream f(path);
  std::string ln;
  while (std::getline(f, ln))
    if (!ln.empty())
      return json::parse(ln).value("k", "") == "t";
  return false;
}

int main(int argc, char **argv)
{
  install_death_callback();
  if (argc >= 5 && std::string(argv[1]) == "replay" && is_tail_file(argv[2]))
    return tail_cases(argv[2], strtoull(argv[3], nullptr, 10));
  if (argc >= 5 && std::string(argv[1]) == "replay")
    return replay_cases(argv[2], strtoull(argv[3], nullptr, 10), atoi(argv[4]), run_rt, run_x, sweep_site);
  if (argc >= 4 && std::string(argv[1]) == "record")
    return record(strtoull(argv[2], nullptr, 10), atol(argv[3]));
  fprintf(stderr, "usage: c16_b3jaeger replay <cases.ndjson> <seed> <n> | record <seed> <n>\n");
  return 9;
}
