// C06 / C08 executor: runs "programs" (histories of Create / AddReader / ShutdownReader / Add / Collect, either printed by TLC
// from spec/MetricsSync.tla or drawn from a seeded PRNG by tools/lib/metrics_sync.py) on the REAL
// synchronous metrics pipeline and prints, per execution, the observable event log that
// spec/MetricsSyncTrace.tla validates.  The harness decides nothing: it concretises abstract
// keys / values / amounts (table in c06_common.h), calls the public API, and abstracts what the
// readers' Collect callbacks received back into the monitor's vocabulary.
//
//   c06_sync run <programs.ndjson>      one JSON program per line, events on stdout
//
// mode "api":     MeterProvider + Meter + Counter/UpDownCounter handles + pull MetricReaders
//                 (public API only; views with FilteringAttributesProcessor; default limit 2000)
// mode "storage": SyncMetricStorage constructed directly (the only way to get an explicit
//                 cardinality limit at this version) + CollectorHandles; timestamps are supplied
//                 by the harness
// Timestamps are logged as ranks: 0 = SDK start, k = the k-th Collect of the execution, -1 = none
// of these.
#include <chrono>
#include <fstream>
#include <iostream>
#include <thread>

#include "c06_common.h"

#include "opentelemetry/context/context.h"
#include "opentelemetry/metrics/meter.h"
#include "opentelemetry/metrics/sync_instruments.h"
#include "opentelemetry/sdk/metrics/data/metric_data.h"
#include "opentelemetry/sdk/metrics/export/metric_producer.h"
#include "opentelemetry/sdk/metrics/instruments.h"
#include "opentelemetry/sdk/metrics/meter_context.h"
#include "opentelemetry/sdk/metrics/meter_provider.h"
#include "opentelemetry/sdk/metrics/metric_reader.h"
#include "opentelemetry/sdk/metrics/state/metric_collector.h"
#include "opentelemetry/sdk/metrics/state/sync_metric_storage.h"
#include "opentelemetry/sdk/metrics/view/attributes_processor.h"
#include "opentelemetry/sdk/metrics/view/instrument_selector.h"
#include "opentelemetry/sdk/metrics/view/meter_selector.h"
#include "opentelemetry/sdk/metrics/view/view.h"
#include "opentelemetry/sdk/metrics/view/view_registry.h"
#include "opentelemetry/sdk/resource/resource.h"

using namespace c06;
namespace sdkm = opentelemetry::sdk::metrics;
namespace apim = opentelemetry::metrics;
using opentelemetry::common::SystemTimestamp;

namespace
{
class PullReader final : public sdkm::MetricReader
{
public:
  explicit PullReader(sdkm::AggregationTemporality t) : t_(t) {}
  sdkm::AggregationTemporality GetAggregationTemporality(sdkm::InstrumentType) const noexcept override
  {
    return t_;
  }

private:
  bool OnForceFlush(std::chrono::microseconds) noexcept override { return true; }
  bool OnShutDown(std::chrono::microseconds) noexcept override { return true; }
  sdkm::AggregationTemporality t_;
};

class FixedCollector final : public sdkm::CollectorHandle
{
public:
  explicit FixedCollector(sdkm::AggregationTemporality t) : t_(t) {}
  sdkm::AggregationTemporality GetAggregationTemporality(sdkm::InstrumentType) noexcept override
  {
    return t_;
  }

private:
  sdkm::AggregationTemporality t_;
};

int64_t now_ns()
{
  return std::chrono::duration_cast<std::chrono::nanoseconds>(
             std::chrono::system_clock::now().time_since_epoch())
      .count();
}
// returns a clock reading strictly after every earlier one
int64_t tick()
{
  static int64_t last = 0;
  int64_t t           = now_ns();
  while (t <= last)
    t = now_ns();
  last = t;
  return t;
}
int64_t raw(const SystemTimestamp &ts) { return ts.time_since_epoch().count(); }

sdkm::AggregationTemporality temp_of(const std::string &s)
{
  return s == "delta" ? sdkm::AggregationTemporality::kDelta : sdkm::AggregationTemporality::kCumulative;
}

std::unique_ptr<sdkm::AttributesProcessor> make_processor(const json &filter, int kt)
{
  bool all = false;
  std::unordered_map<std::string, bool> allowed;
  for (auto &k : filter)
  {
    if (k.get<int>() == 0)
      all = true;
    else
      allowed[key_name(kt, k.get<int>())] = true;
  }
  if (all)
    return std::unique_ptr<sdkm::AttributesProcessor>(new sdkm::DefaultAttributesProcessor());
  return std::unique_ptr<sdkm::AttributesProcessor>(new sdkm::FilteringAttributesProcessor(allowed));
}

struct Exec
{
  json prog;
  std::string mode, kind, vt;
  int kt, vf, nviews, nreaders;
  double scale;          // double instruments: amount n is recorded as n * scale
  int64_t mult = 1;      // long instruments:   amount n is recorded as n * mult (c06_common.h)
  bool is_double, mono;
  int max_k = 1;
  Rng rng{1};
  std::vector<std::unique_ptr<sdkm::AttributesProcessor>> my_proc;  // for the hash observation only
  std::map<size_t, int> hash_ids;

  // api mode
  sdkm::MeterContext *ctx = nullptr;
  std::shared_ptr<sdkm::MeterProvider> provider;
  std::vector<std::shared_ptr<PullReader>> readers;
  nostd::shared_ptr<apim::Meter> meter;
  std::vector<nostd::unique_ptr<apim::Counter<uint64_t>>> c_long;
  std::vector<nostd::unique_ptr<apim::Counter<double>>> c_dbl;
  std::vector<nostd::unique_ptr<apim::UpDownCounter<int64_t>>> u_long;
  std::vector<nostd::unique_ptr<apim::UpDownCounter<double>>> u_dbl;
  int64_t sdk_raw = 0;
  // storage mode
  std::unique_ptr<sdkm::AttributesProcessor> st_proc;
  std::unique_ptr<sdkm::SyncMetricStorage> storage;
  std::vector<std::shared_ptr<sdkm::CollectorHandle>> collectors;
  // collections so far
  struct Col
  {
    int r;
    int64_t before, after, end_raw;  // end_raw = 0: nothing delivered
  };
  std::vector<Col> cols;

  explicit Exec(const json &p) : prog(p)
  {
    mode      = p.at("mode").get<std::string>();
    kind      = p.value("kind", std::string("counter"));
    vt        = p.value("vt", std::string("long"));
    kt        = p.value("kt", 0);
    vf        = p.value("vf", 0);
    int sc    = p.value("scale", 0);
    scale     = sc == 1 ? 0.25 : (sc == 2 ? 1024.0 : 1.0);
    is_double = vt == "double";
    mono      = kind == "counter";
    nviews    = (int)p.at("filters").size();
    nreaders  = (int)p.at("temps").size();
    rng       = Rng((uint64_t)p.value("seed", 1));
    int64_t total = 0;
    for (auto &op : p.at("ops"))
      if (op.at("e") == "Add")
      {
        total += std::llabs(op.at("v").get<long>());
        for (auto &kv : op.at("attrs"))
          max_k = std::max(max_k, kv.at(0).get<int>());
      }
    if (!is_double && sc != 0)
    {
      const int64_t huge = (int64_t(1) << 53) + 1, cap = int64_t(1) << 62;
      total              = std::max<int64_t>(total, 1);
      if (sc == 2)
        mult = 3;
      else if (total <= cap / huge)
        mult = huge;
      else
        mult = (cap / total - 1) | 1;
    }
    for (auto &f : p.at("filters"))
    {
      for (auto &k : f)
        max_k = std::max(max_k, k.get<int>());
      my_proc.push_back(make_processor(f, kt));
    }
  }

  sdkm::InstrumentType itype() const
  {
    return mono ? sdkm::InstrumentType::kCounter : sdkm::InstrumentType::kUpDownCounter;
  }

  void setup()
  {
    if (mode == "api")
    {
      tick();
      std::unique_ptr<sdkm::MeterContext> c(new sdkm::MeterContext(
          std::unique_ptr<sdkm::ViewRegistry>(new sdkm::ViewRegistry()),
          opentelemetry::sdk::resource::Resource::Create({})));
      ctx      = c.get();
      provider = std::make_shared<sdkm::MeterProvider>(std::move(c));
      sdk_raw  = raw(ctx->GetSDKStartTime());
      tick();
      for (auto &t : prog.at("temps"))
      {
        readers.push_back(std::make_shared<PullReader>(temp_of(t.get<std::string>())));
        provider->AddMetricReader(readers.back());
      }
      bool plain = nviews == 1 && prog.value("defview", true) &&
                   prog.at("filters")[0] == json::array({0});
      if (!plain)
      {
        for (int i = 0; i < nviews; ++i)
        {
          std::string name = nviews == 1 ? "" : "s" + std::to_string(i + 1);
          provider->AddView(
              std::unique_ptr<sdkm::InstrumentSelector>(new sdkm::InstrumentSelector(itype(), "ins", "")),
              std::unique_ptr<sdkm::MeterSelector>(new sdkm::MeterSelector("m", "", "")),
              std::unique_ptr<sdkm::View>(new sdkm::View(name, "", "", sdkm::AggregationType::kDefault, nullptr,
                                                         make_processor(prog.at("filters")[i], kt))));
        }
      }
      meter = provider->GetMeter("m");
    }
    else
    {
      st_proc = make_processor(prog.at("filters")[0], kt);
      sdkm::InstrumentDescriptor d{"ins", "", "", itype(),
                                   is_double ? sdkm::InstrumentValueType::kDouble
                                             : sdkm::InstrumentValueType::kLong};
      storage.reset(new sdkm::SyncMetricStorage(d, sdkm::AggregationType::kSum, st_proc.get(), nullptr,
                                                (size_t)prog.at("limit").get<long>()));
      for (auto &t : prog.at("temps"))
        collectors.push_back(std::make_shared<FixedCollector>(temp_of(t.get<std::string>())));
    }
  }

  // a reader registered in the middle of the history
  void add_reader(const std::string &t)
  {
    ++nreaders;
    if (mode == "api")
    {
      readers.push_back(std::make_shared<PullReader>(temp_of(t)));
      provider->AddMetricReader(readers.back());
    }
    else
      collectors.push_back(std::make_shared<FixedCollector>(temp_of(t)));
  }

  // ONE reader is shut down on its own, through the public API (MetricReader::Shutdown); the provider and
  // the other readers keep running.  In storage mode there is no reader object: the storage is simply
  // handed the same collector list as before (it has no notion of a reader that is gone).
  void shutdown_reader(int r)
  {
    if (mode == "api")
      readers.at((size_t)r - 1)->Shutdown();
  }

  void create()
  {
    if (mode != "api")
      return;
    if (mono && !is_double)
      c_long.push_back(meter->CreateUInt64Counter("ins"));
    else if (mono)
      c_dbl.push_back(meter->CreateDoubleCounter("ins"));
    else if (!is_double)
      u_long.push_back(meter->CreateInt64UpDownCounter("ins"));
    else
      u_dbl.push_back(meter->CreateDoubleUpDownCounter("ins"));
  }

  json add(const json &op)
  {
    int h  = op.at("h").get<int>();
    long v = op.at("v").get<long>();
    CallerAttrs ca;
    ca.rep = &rng;
    for (auto &kv : op.at("attrs"))
      ca.add(kt, vf, kv.at(0).get<int>(), kv.at(1).get<int>());
    SeqIterable it(ca.kvs);
    const int64_t lv = (int64_t)v * mult;  // long instruments: exact in int64 (|total| * mult < 2^62)
    // hash of the filtered set, through the public FilteredOrderedAttributeMap API
    json hid = json::array();
    for (int i = 0; i < nviews; ++i)
    {
      sdkm::MetricAttributes ma(it, my_proc[i].get());
      size_t hv = ma.GetHash();
      auto f    = hash_ids.find(hv);
      if (f == hash_ids.end())
        f = hash_ids.emplace(hv, (int)hash_ids.size() + 1).first;
      hid.push_back(f->second);
    }
    int shape = ca.kvs.empty() ? rng.below(3) : 1 + rng.below(2);  // 0: Add(v)  1: Add(v, attrs)  2: Add(v, attrs, ctx)
    opentelemetry::context::Context cx{};
    if (mode == "api")
    {
      size_t i = (size_t)(h - 1);
      if (mono && !is_double)
      {
        auto &c = c_long.at(i);
        shape == 0 ? c->Add((uint64_t)lv) : shape == 1 ? c->Add((uint64_t)lv, it) : c->Add((uint64_t)lv, it, cx);
      }
      else if (mono)
      {
        auto &c = c_dbl.at(i);
        shape == 0 ? c->Add(v * scale) : shape == 1 ? c->Add(v * scale, it) : c->Add(v * scale, it, cx);
      }
      else if (!is_double)
      {
        auto &c = u_long.at(i);
        shape == 0 ? c->Add(lv) : shape == 1 ? c->Add(lv, it) : c->Add(lv, it, cx);
      }
      else
      {
        auto &c = u_dbl.at(i);
        shape == 0 ? c->Add(v * scale) : shape == 1 ? c->Add(v * scale, it) : c->Add(v * scale, it, cx);
      }
    }
    else
    {
      if (is_double)
        shape == 0 ? storage->RecordDouble(v * scale, cx) : storage->RecordDouble(v * scale, it, cx);
      else
        shape == 0 ? storage->RecordLong(lv, cx) : storage->RecordLong(lv, it, cx);
    }
    ca.scribble_and_free();
    json e = {{"e", "Add"}, {"h", h}, {"attrs", op.at("attrs")}, {"v", v}, {"hid", hid}};
    return e;
  }

  int rank_end(int64_t t, int k) const
  {
    if (mode != "api")
      return (int)(t - 1000000);
    const Col &c = cols[(size_t)k - 1];
    return (t >= c.before && t <= c.after) ? k : -1;
  }
  int rank_start(int64_t t, int r, int k) const
  {
    if (mode != "api")
      return (int)(t - 1000000);
    if (t == sdk_raw)
      return 0;
    for (int j = 1; j < k; ++j)
    {
      const Col &c = cols[(size_t)j - 1];
      if (c.r != r)
        continue;
      if (c.end_raw ? t == c.end_raw : (t >= c.before && t <= c.after))
        return j;
    }
    return -1;
  }

  json stream_of(const sdkm::MetricData &md, int r, int k)
  {
    json s;
    const std::string &name = md.instrument_descriptor.name_;
    int vw                  = 0;
    if (nviews == 1 && name == "ins")
      vw = 1;
    else if (nviews > 1 && name.size() >= 2 && name[0] == 's')
    {
      int n = parse_tagged(name, 's');
      vw    = n >= 1 && n <= nviews ? n : 0;
    }
    s["vw"]    = vw;
    s["t"]     = md.aggregation_temporality == sdkm::AggregationTemporality::kDelta
                     ? "delta"
                     : (md.aggregation_temporality == sdkm::AggregationTemporality::kCumulative ? "cum" : "other");
    s["start"] = rank_start(raw(md.start_ts), r, k);
    s["end"]   = rank_end(raw(md.end_ts), k);
    json pts   = json::array();
    for (auto &pa : md.point_data_attr_)
    {
      json p;
      bool ovf = false;
      p["a"]   = abstract_attrs(pa.attributes, kt, vf, max_k, &ovf);
      p["o"]   = ovf;
      long val = kGarbage;
      if (auto sp = nostd::get_if<sdkm::SumPointData>(&pa.point_data))
      {
        if (!is_double)
        {
          if (auto iv = nostd::get_if<int64_t>(&sp->value_))
          {
            // projection: the abstract amount is V / mult when mult divides V exactly
            int64_t q = *iv / mult;
            val       = (*iv % mult == 0 && q > -(1L << 30) && q < (1L << 30)) ? (long)q : kGarbage;
          }
        }
        else if (auto dv = nostd::get_if<double>(&sp->value_))
        {
          double q = *dv / scale;
          if (q == std::floor(q) && std::fabs(q) < (double)(1L << 30))
            val = (long)q;
        }
        if (sp->is_monotonic_ != mono)
          val = kGarbage;
      }
      p["v"] = val;
      pts.push_back(p);
    }
    s["pts"] = pts;
    return s;
  }

  json collect(const json &op)
  {
    int r = op.at("r").get<int>();
    int k = (int)cols.size() + 1;
    Col c{r, 0, 0, 0};
    json streams = json::array();
    std::vector<sdkm::MetricData> got;
    if (mode == "api")
    {
      c.before = tick();
      readers.at((size_t)r - 1)->Collect([&](sdkm::ResourceMetrics &rm) {
        for (auto &sm : rm.scope_metric_data_)
          for (auto &md : sm.metric_data_)
            got.push_back(md);
        return true;
      });
      c.after = tick();
    }
    else
    {
      SystemTimestamp sdk_ts(std::chrono::nanoseconds(1000000));
      SystemTimestamp col_ts(std::chrono::nanoseconds(1000000 + k));
      storage->Collect(collectors.at((size_t)r - 1).get(),
                       nostd::span<std::shared_ptr<sdkm::CollectorHandle>>(collectors.data(), collectors.size()),
                       sdk_ts, col_ts, [&](sdkm::MetricData md) {
                         got.push_back(std::move(md));
                         return true;
                       });
    }
    for (auto &md : got)
      if (c.end_raw == 0)
        c.end_raw = raw(md.end_ts);
    cols.push_back(c);
    for (auto &md : got)
      streams.push_back(stream_of(md, r, k));
    json e = {{"e", "Collect"}, {"r", r}, {"k", k}, {"streams", streams}};
    return e;
  }

  void run()
  {
    json cfg = {{"e", "Cfg"},
                {"x", prog.value("x", 0)},
                {"mode", mode},
                {"temps", prog.at("temps")},
                {"filters", prog.at("filters")},
                {"limit", mode == "api" ? (long)sdkm::kAggregationCardinalityLimit : prog.at("limit").get<long>()},
                {"mono", mono}};
    std::cout << cfg.dump() << "\n";
    setup();
    int nh = 0;
    for (auto &op : prog.at("ops"))
    {
      std::string e = op.at("e").get<std::string>();
      if (e == "Create")
      {
        create();
        ++nh;
        std::cout << json({{"e", "Create"}, {"h", nh}}).dump() << "\n";
      }
      else if (e == "AddReader")
      {
        add_reader(op.at("t").get<std::string>());
        std::cout << json({{"e", "AddReader"}, {"t", op.at("t")}}).dump() << "\n";
      }
      else if (e == "ShutdownReader")
      {
        shutdown_reader(op.at("r").get<int>());
        std::cout << json({{"e", "ShutdownReader"}, {"r", op.at("r")}}).dump() << "\n";
      }
      else if (e == "Add")
        std::cout << add(op).dump() << "\n";
      else if (e == "Collect")
        std::cout << collect(op).dump() << "\n";
    }
    std::cout.flush();
    // tear down in the natural order: handles, meter, provider
    c_long.clear();
    c_dbl.clear();
    u_long.clear();
    u_dbl.clear();
    meter = nostd::shared_ptr<apim::Meter>();
    readers.clear();
    provider.reset();
  }
};
}  // namespace

int main(int argc, char **argv)
{
  if (argc < 3 || std::string(argv[1]) != "run")
  {
    std::cerr << "usage: c06_sync run <programs.ndjson>\n";
    return 2;
  }
  std::ifstream in(argv[2]);
  std::string line;
  while (std::getline(in, line))
  {
    if (line.empty())
      continue;
    json p = json::parse(line);
    Exec ex(p);
    ex.run();
  }
  return 0;
}
