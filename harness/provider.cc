// Engine harness for the provider level (C02, C03, also C01's exactly-once per exporter):
// real TracerProvider / LoggerProvider -> context -> MultiSpanProcessor / MultiLogRecordProcessor ->
// children (batch and/or simple processors) -> capturing exporters, under the deterministic scheduler.
// Level-A event log validated by spec/ProviderMonitor.tla.
//
//   provider explore <trace|logs> <random|pct|dfs> <n> <seed> [scenario [bound]]
// scenario = procs,np,nr,nf,ns,lat,fto,expfail,destroy,B     procs e.g. BB, BS, S, B, SS
#include "opentelemetry/logs/logger.h"
#include "opentelemetry/sdk/common/global_log_handler.h"
#include "opentelemetry/sdk/logs/batch_log_record_processor.h"
#include "opentelemetry/sdk/logs/batch_log_record_processor_options.h"
#include "opentelemetry/sdk/logs/exporter.h"
#include "opentelemetry/sdk/logs/logger_provider.h"
#include "opentelemetry/sdk/logs/read_write_log_record.h"
#include "opentelemetry/sdk/logs/simple_log_record_processor.h"
#include "opentelemetry/sdk/trace/batch_span_processor.h"
#include "opentelemetry/sdk/trace/batch_span_processor_options.h"
#include "opentelemetry/sdk/trace/exporter.h"
#include "opentelemetry/sdk/trace/simple_processor.h"
#include "opentelemetry/sdk/trace/span_data.h"
#include "opentelemetry/sdk/trace/tracer_provider.h"
#include "opentelemetry/trace/tracer.h"

#include "hcommon.h"

namespace sdktrace  = opentelemetry::sdk::trace;
namespace sdklogs   = opentelemetry::sdk::logs;
namespace sdkcommon = opentelemetry::sdk::common;
namespace nostd     = opentelemetry::nostd;
using hc::emitf;

struct Scenario
{
  std::string procs = "BS";
  int np = 2, nr = 2, nf = 1, ns = 1, lat = 1, fto = 0, expfail = 0, destroy = 0, B = 2;
  int delay_ms = 5;
};

static bool g_expfail = false;
static bool g_ff_always_fails = false;  // expfail == 2: the exporter's ForceFlush always reports failure
static bool g_sd_first_fails = false;  // expfail == 3: the FIRST exporter's Shutdown reports failure
static int g_lat      = 0;

static int parse_tag(const std::string &s)
{
  int p = 0, q = 0;
  if (sscanf(s.c_str(), "%d-%d", &p, &q) == 2)
    return p * 100 + q;
  return -1;
}

static void exp_begin(int x, const std::string &items)
{
  emitf("{\"e\":\"XBegin\",\"x\":%d,\"batch\":[%s]}", x, items.c_str());
  if (g_lat == 9)
    std::this_thread::sleep_for(std::chrono::milliseconds(5));  // a really slow Export (virtual time)
  else
    for (int i = 0; i < g_lat; ++i)
      vs::point(vs::K_USER, nullptr);
}
static sdkcommon::ExportResult exp_end(int x)
{
  int res = g_expfail ? vs::choose(3) : 0;  // success, kFailure, kFailureFull
  emitf("{\"e\":\"XEnd\",\"x\":%d,\"ok\":%s}", x, res ? "false" : "true");
  return res == 0 ? sdkcommon::ExportResult::kSuccess
                  : (res == 1 ? sdkcommon::ExportResult::kFailure : sdkcommon::ExportResult::kFailureFull);
}
static bool exp_ff(int x)
{
  vs::point(vs::K_USER, nullptr);
  bool fail = g_ff_always_fails || (g_expfail && vs::choose(2) == 1);
  emitf("{\"e\":\"XFF\",\"x\":%d,\"ok\":%s}", x, fail ? "false" : "true");
  return !fail;
}
static bool exp_sd(int x)
{
  vs::point(vs::K_USER, nullptr);
  emitf("{\"e\":\"XSD\",\"x\":%d}", x);
  return !(g_sd_first_fails && x == 1);
}

struct XSpanExporter final : public sdktrace::SpanExporter
{
  int x;
  explicit XSpanExporter(int i) : x(i) {}
  std::unique_ptr<sdktrace::Recordable> MakeRecordable() noexcept override
  {
    return std::unique_ptr<sdktrace::Recordable>(new sdktrace::SpanData());
  }
  sdkcommon::ExportResult Export(const nostd::span<std::unique_ptr<sdktrace::Recordable>> &spans) noexcept override
  {
    std::string items;
    for (auto &r : spans)
    {
      int id = -1;
      if (r)
      {
        auto *sd = static_cast<sdktrace::SpanData *>(r.get());
        id       = parse_tag(std::string(sd->GetName().data(), sd->GetName().size()));
      }
      items += (items.empty() ? "" : ",") + std::to_string(id);
    }
    exp_begin(x, items);
    return exp_end(x);
  }
  bool ForceFlush(std::chrono::microseconds) noexcept override { return exp_ff(x); }
  bool Shutdown(std::chrono::microseconds) noexcept override { return exp_sd(x); }
};

struct XLogExporter final : public sdklogs::LogRecordExporter
{
  int x;
  explicit XLogExporter(int i) : x(i) {}
  std::unique_ptr<sdklogs::Recordable> MakeRecordable() noexcept override
  {
    return std::unique_ptr<sdklogs::Recordable>(new sdklogs::ReadWriteLogRecord());
  }
  sdkcommon::ExportResult Export(const nostd::span<std::unique_ptr<sdklogs::Recordable>> &recs) noexcept override
  {
    std::string items;
    for (auto &r : recs)
    {
      int id = -1;
      if (r)
      {
        auto *lr          = static_cast<sdklogs::ReadWriteLogRecord *>(r.get());
        const auto &body  = lr->GetBody();
        if (nostd::holds_alternative<nostd::string_view>(body))
        {
          auto sv = nostd::get<nostd::string_view>(body);
          id      = parse_tag(std::string(sv.data(), sv.size()));
        }
        else if (nostd::holds_alternative<const char *>(body))
          id = parse_tag(nostd::get<const char *>(body));
      }
      items += (items.empty() ? "" : ",") + std::to_string(id);
    }
    exp_begin(x, items);
    return exp_end(x);
  }
  bool ForceFlush(std::chrono::microseconds) noexcept override { return exp_ff(x); }
  bool Shutdown(std::chrono::microseconds) noexcept override { return exp_sd(x); }
};

static std::chrono::microseconds fto_value(int cls)
{
  switch (cls)
  {
    case 0:
      return std::chrono::microseconds(0);
    case 1:
      return std::chrono::microseconds(1000);
    case 2:
      return std::chrono::microseconds(12000);
    default:
      return (std::chrono::microseconds::max)();
  }
}

struct TraceSide
{
  static const char *name() { return "trace"; }
  std::unique_ptr<sdktrace::TracerProvider> prov;
  nostd::shared_ptr<opentelemetry::trace::Tracer> tracer;
  void make(const Scenario &sc)
  {
    std::vector<std::unique_ptr<sdktrace::SpanProcessor>> procs;
    int x = 1;
    for (char c : sc.procs)
    {
      std::unique_ptr<sdktrace::SpanExporter> e(new XSpanExporter(x++));
      if (c == 'B')
      {
        sdktrace::BatchSpanProcessorOptions o;
        o.max_queue_size        = (size_t)(sc.np * sc.nr + 4);
        o.max_export_batch_size = (size_t)sc.B;
        o.schedule_delay_millis = std::chrono::milliseconds(sc.delay_ms);
        procs.emplace_back(new sdktrace::BatchSpanProcessor(std::move(e), o));
      }
      else
        procs.emplace_back(new sdktrace::SimpleSpanProcessor(std::move(e)));
    }
    prov.reset(new sdktrace::TracerProvider(std::move(procs)));
    tracer = prov->GetTracer("verif");
  }
  void produce(int p, int s, std::vector<std::string> &keep)
  {
    keep.push_back(std::to_string(p) + "-" + std::to_string(s));
    auto span = tracer->StartSpan(keep.back());
    span->End();
  }
  bool flush(std::chrono::microseconds t) { return prov->ForceFlush(t); }
  bool shutdown(std::chrono::microseconds t) { return prov->Shutdown(t); }
  void destroy()
  {
    tracer = nostd::shared_ptr<opentelemetry::trace::Tracer>();
    prov.reset();
  }
};

struct LogSide
{
  static const char *name() { return "logs"; }
  std::unique_ptr<sdklogs::LoggerProvider> prov;
  nostd::shared_ptr<opentelemetry::logs::Logger> logger;
  void make(const Scenario &sc)
  {
    std::vector<std::unique_ptr<sdklogs::LogRecordProcessor>> procs;
    int x = 1;
    for (char c : sc.procs)
    {
      std::unique_ptr<sdklogs::LogRecordExporter> e(new XLogExporter(x++));
      if (c == 'B')
      {
        sdklogs::BatchLogRecordProcessorOptions o;
        o.max_queue_size        = (size_t)(sc.np * sc.nr + 4);
        o.max_export_batch_size = (size_t)sc.B;
        o.schedule_delay_millis = std::chrono::milliseconds(sc.delay_ms);
        procs.emplace_back(new sdklogs::BatchLogRecordProcessor(std::move(e), o));
      }
      else
        procs.emplace_back(new sdklogs::SimpleLogRecordProcessor(std::move(e)));
    }
    prov.reset(new sdklogs::LoggerProvider(std::move(procs)));
    logger = prov->GetLogger("verif", "verif");
  }
  void produce(int p, int s, std::vector<std::string> &keep)
  {
    // the body buffer stays alive for the whole execution (the SDK keeps a view of it)
    keep.push_back(std::to_string(p) + "-" + std::to_string(s));
    logger->EmitLogRecord(opentelemetry::logs::Severity::kInfo, nostd::string_view(keep.back()));
  }
  bool flush(std::chrono::microseconds t) { return prov->ForceFlush(t); }
  bool shutdown(std::chrono::microseconds t) { return prov->Shutdown(t); }
  void destroy()
  {
    logger = nostd::shared_ptr<opentelemetry::logs::Logger>();
    prov.reset();
  }
};

template <class Side>
static void run_scenario(const Scenario &sc)
{
  g_expfail = sc.expfail == 1;
  g_ff_always_fails = sc.expfail == 2;
  g_sd_first_fails = sc.expfail == 3;
  g_lat     = sc.lat;
  std::vector<std::vector<std::string>> keep((size_t)sc.np + 1);
  for (auto &k : keep)
    k.reserve(64);
  {
    Side side;
    side.make(sc);
    std::vector<std::thread> producers, others;
    for (int p = 0; p < sc.np; ++p)
      producers.emplace_back([&, p]() {
        for (int s = 0; s < sc.nr; ++s)
        {
          emitf("{\"e\":\"EndCall\",\"p\":%d,\"s\":%d}", p, s);
          side.produce(p, s, keep[(size_t)p]);
          emitf("{\"e\":\"EndRet\",\"p\":%d,\"s\":%d}", p, s);
        }
      });
    for (int f = 0; f < sc.nf; ++f)
      others.emplace_back([&, f]() {
        int cls = (sc.fto + f) % 4;
        emitf("{\"e\":\"FFCall\",\"f\":%d,\"to\":%d}", f, cls);
        bool r = side.flush(fto_value(cls));
        emitf("{\"e\":\"FFRet\",\"f\":%d,\"r\":%s}", f, r ? "true" : "false");
      });
    if (!sc.destroy)
      for (int s = 0; s < sc.ns; ++s)
        others.emplace_back([&, s]() {
          // Shutdown timeout classes rotate like the flush ones: 1 ms, 12 ms, max, zero
          int cls = (sc.fto + 1 + s) % 4;
          emitf("{\"e\":\"SDCall\",\"s\":%d,\"to\":%d}", s, cls);
          bool r = side.shutdown(fto_value(cls));
          emitf("{\"e\":\"SDRet\",\"s\":%d,\"r\":%s}", s, r ? "true" : "false");
        });
    for (auto &t : producers)
      t.join();
    for (auto &t : others)
      t.join();
    if (sc.destroy)
    {
      emitf("{\"e\":\"SDCall\",\"s\":99}");
      side.destroy();
      emitf("{\"e\":\"SDRet\",\"s\":99,\"r\":true}");
    }
    else
    {
      // after Shutdown returned: one more record and one more flush
      emitf("{\"e\":\"EndCall\",\"p\":%d,\"s\":%d}", sc.np, 0);
      side.produce(sc.np, 0, keep[(size_t)sc.np]);
      emitf("{\"e\":\"EndRet\",\"p\":%d,\"s\":%d}", sc.np, 0);
      emitf("{\"e\":\"FFCall\",\"f\":50,\"to\":3}");
      bool r = side.flush((std::chrono::microseconds::max)());
      emitf("{\"e\":\"FFRet\",\"f\":50,\"r\":%s}", r ? "true" : "false");
      side.destroy();
    }
  }
}

static Scenario draw(uint64_t seed)
{
  std::mt19937_64 r(seed * 104729 + 3);
  static const char *shapes[] = {"B", "S", "BB", "BS", "SB", "SS", "BBS"};
  Scenario sc;
  sc.procs   = shapes[r() % 7];
  sc.np      = 1 + (int)(r() % 3);
  sc.nr      = 1 + (int)(r() % 3);
  sc.nf      = (int)(r() % 3);
  sc.ns      = 1 + (int)(r() % 2);
  sc.lat     = (int)(r() % 5);
  if (sc.lat == 3)
    sc.lat = 8;
  if (sc.lat == 4)
    sc.lat = 9;  // Export sleeps 5 ms of virtual time
  sc.fto     = (int)(r() % 4);
  sc.expfail = (int)(r() % 5);
  if (sc.expfail == 4)
    sc.expfail = 0;
  sc.destroy = (r() % 5) == 0;
  sc.B       = 1 + (int)(r() % 3);
  sc.delay_ms = (r() % 2) ? 5 : 1;
  return sc;
}

static bool parse_scenario(const char *s, Scenario &sc)
{
  char procs[16];
  int v[9];
  int n = sscanf(s, "%15[BS],%d,%d,%d,%d,%d,%d,%d,%d,%d", procs, &v[0], &v[1], &v[2], &v[3], &v[4], &v[5], &v[6], &v[7], &v[8]);
  if (n < 10)
    return false;
  sc.procs = procs;
  sc.np = v[0]; sc.nr = v[1]; sc.nf = v[2]; sc.ns = v[3]; sc.lat = v[4]; sc.fto = v[5]; sc.expfail = v[6];
  sc.destroy = v[7]; sc.B = v[8];
  return true;
}

template <class Side>
static int explore(int argc, char **argv)
{
  std::string strat = argv[3];
  long n            = atol(argv[4]);
  uint64_t seed     = strtoull(argv[5], nullptr, 10);
  Scenario fixed;
  bool have_fixed = argc > 6 && parse_scenario(argv[6], fixed);
  int bound       = argc > 7 ? atoi(argv[7]) : 2;
  hc::install();
  opentelemetry::sdk::common::internal_log::GlobalLogHandler::SetLogLevel(
      opentelemetry::sdk::common::internal_log::LogLevel::None);
  std::vector<int> tape;
  long execs = 0;
  for (long it = 0; it < n; ++it)
  {
    Scenario sc = have_fixed ? fixed : draw(seed * 1000003ULL + (uint64_t)it);
    vs::Config cfg;
    cfg.seed = seed * 1000003ULL + (uint64_t)it;
    if (strat == "random")
    {
      cfg.strategy = vs::S_RANDOM;
      cfg.p_switch = (it % 3 == 0) ? 0.2 : 0.5;
      cfg.p_timer  = (it % 2 == 0) ? 0.05 : 0.2;
    }
    else if (strat == "pct")
    {
      cfg.strategy  = vs::S_PCT;
      cfg.pct_depth = 1 + (int)(it % 4);
      cfg.pct_len   = 500;
    }
    else
    {
      cfg.strategy       = vs::S_TAPE;
      cfg.tape           = tape;
      cfg.preempt_bound  = bound;
      cfg.p_spurious_cas = 0;
    }
    cfg.max_steps        = 60000;
    cfg.fair_extra_steps = 60000;
    cfg.spin_limit       = 1500;  // yields consume virtual time; let timeout-polling loops run their course
    std::string kinds;
    for (char c : sc.procs)
      kinds += std::string(kinds.empty() ? "" : ",") + "\"" + c + "\"";
    char hdr[400];
    snprintf(hdr, sizeof hdr,
             "{\"e\":\"Cfg\",\"side\":\"%s\",\"kinds\":[%s],\"np\":%d,\"nr\":%d,\"nf\":%d,\"ns\":%d,\"lat\":%d,\"fto\":%d,"
             "\"expfail\":%d,\"destroy\":%d,\"B\":%d,\"seed\":%llu}",
             Side::name(), kinds.c_str(), sc.np, sc.nr, sc.nf, sc.ns, sc.lat, sc.fto, sc.expfail, sc.destroy, sc.B,
             (unsigned long long)cfg.seed);
    hc::pending_header() = hdr;
    vs::Result res = vs::run(cfg, [&]() { run_scenario<Side>(sc); });
    std::cout << hdr << "\n";
    for (auto &l : vs::log_lines())
      std::cout << l << "\n";
    std::cout << "{\"e\":\"End\",\"steps\":" << res.steps << ",\"fair\":" << (res.turned_fair ? 1 : 0) << "}\n";
    execs++;
    if (strat == "dfs" && !hc::next_tape(res.choices, tape))
    {
      std::cout << "{\"e\":\"DfsComplete\",\"executions\":" << execs << "}\n";
      break;
    }
  }
  std::cout << "{\"e\":\"Summary\",\"executions\":" << execs << "}" << std::endl;
  return 0;
}

int main(int argc, char **argv)
{
  if (argc >= 6 && std::string(argv[1]) == "explore")
  {
    if (std::string(argv[2]) == "trace")
      return explore<TraceSide>(argc, argv);
    return explore<LogSide>(argc, argv);
  }
  fprintf(stderr, "usage: provider explore trace|logs random|pct|dfs N SEED [scenario [bound]]\n");
  return 2;
}
