// Shared helpers for the engine-based harnesses (shim flavour).
#pragma once
#include <csignal>
#include <cstdarg>
#include <cstdio>
#include <iostream>
#include <string>
#include <vector>
#include <unistd.h>

namespace hc
{
inline void emitf(const char *fmt, ...)
{
  char b[1024];
  va_list ap;
  va_start(ap, fmt);
  vsnprintf(b, sizeof b, fmt, ap);
  va_end(ap);
  vs::emit(b);
}

inline std::string &pending_header()
{
  static std::string h;
  return h;
}

// Stuck executions (deadlock / livelock under the fair schedule): print what was logged so far,
// a Stuck event, and leave with status 3.
inline void on_stuck(int status, const std::string &why)
{
  if (!pending_header().empty())
    std::cout << pending_header() << "\n";
  for (auto &l : vs::log_lines())
    std::cout << l << "\n";
  std::string w;
  for (char c : why)
    w += (c == '"' || c == '\\') ? ' ' : (c == '\n' ? ';' : c);
  std::cout << "{\"e\":\"Stuck\",\"status\":" << status << ",\"why\":\"" << w << "\"}" << std::endl;
  _exit(3);
}

inline void on_crash(int sig)
{
  // not async-signal-safe, but the process is going down anyway and only one thread runs
  if (!pending_header().empty())
    std::cout << pending_header() << "\n";
  for (auto &l : vs::log_lines())
    std::cout << l << "\n";
  std::cout << "{\"e\":\"Crash\",\"signal\":" << sig << "}" << std::endl;
  _exit(4);
}

inline void install()
{
  vs::set_on_stuck(on_stuck);
  signal(SIGSEGV, on_crash);
  signal(SIGABRT, on_crash);
  signal(SIGBUS, on_crash);
  signal(SIGFPE, on_crash);
  signal(SIGILL, on_crash);
}

// Stateless DFS over the choice tape: next tape after an execution, or false when exhausted.
inline bool next_tape(const std::vector<vs::Choice> &c, std::vector<int> &tape)
{
  int i = (int)c.size() - 1;
  while (i >= 0 && c[i].c + 1 >= c[i].n)
    --i;
  if (i < 0)
    return false;
  tape.clear();
  for (int j = 0; j < i; ++j)
    tape.push_back(c[j].c);
  tape.push_back(c[i].c + 1);
  return true;
}
}  // namespace hc
