// C14 - replayer / recorder for opentelemetry::trace::TraceState (public API only).
//
//   c14_tracestate replay <behaviours.ndjson>     spec -> code: every line {"id":..,"inst":..,"steps":[..]}
//                                                 is a TLC behaviour of spec/TraceState.tla; each step is
//                                                 performed on the real class and ToHeader()/GetAllEntries()/
//                                                 Get()/Empty() of EVERY object created so far are compared
//                                                 with the lists TLC computed.
//   c14_tracestate record <seed> <nexec> <len>    code -> spec: long random histories, one ndjson event per
//                                                 call in the vocabulary of spec/TraceStateTrace.tla.
//
// Concretisation table (abstract <<class, n>> -> real string; `inst` seeds the free choices, the same
// abstract value is the same string within one behaviour/execution):
//   keys   s      lcalpha n '/' tail(0..12 of [a-z0-9_-*/])
//          m      (lcalpha|digit) n '/' tail(0..10) '@' lcalpha tail(0..13)
//          b      as s, padded to exactly 256 characters
//          bm     tenant padded to exactly 241 '@' system of exactly 14
//          K257   as b with 257 (sometimes 300/1000) characters      Kup   s with one upper-case letter
//          Kempty ""        Kill  s with one of  ' ' = , . : ! " \ + % ( ; TAB LF 0x01 0x7f  after the 1st char
//          Kat    "@x", "x@", "a@b@c"    Kmt15 tenant '@' system of 15    Kmt242 tenant of 242 '@' system
//          K8bit  s with a byte 0x80..0xff after the 1st char      KctlFirst / K8bitFirst  1-2 bytes of {0x00-0x08,
//          0x0e-0x1f, 0x7f} / {0x80-0xff} BEFORE a simple key (first byte of the member in a header)
//   values s      'v' n ':' tail(0..12 printable, no blank , =)       sp  with leading / inner blanks
//          b      padded to exactly 256                                x   'v' n ':' punctuation
//          Vtrail s + 1..3 trailing blanks   Vcomma / Veq  with ',' / '='   V257 257 characters   Vempty ""
//          Vctl   any C0 control / DEL in the middle    V8bit any byte 0x80..0xff in the middle
//          VctlLast / V8bitLast  value ENDING in 1-2 such bytes (non-isspace controls; last byte of the member)
//   header tokens: kv -> key '=' value, ows sp/tab/both -> blanks around the member, empty -> "" or blanks,
//          noeq -> a word without '='; junk -> 1-3 illegal bytes only; members joined with ','.
// Related keys: `inst % 3` selects how the VALID keys of one behaviour relate to each other (independent /
// prefix chain / same length differing in the last characters), see struct Conc.
// Every string handed to the API lives in an exactly-sized heap buffer without NUL terminator that is
// overwritten and freed right after the call (ASan + aliasing detection).
#include <cstdint>
#include <cstring>
#include <fstream>
#include <iostream>
#include <map>
#include <memory>
#include <string>
#include <vector>

#include <nlohmann/json.hpp>

#include "opentelemetry/trace/trace_state.h"

using json = nlohmann::json;
namespace nostd = opentelemetry::nostd;
using opentelemetry::trace::TraceState;
typedef nostd::shared_ptr<TraceState> TsPtr;
typedef std::vector<std::pair<std::string, std::string>> List;

// ---------------------------------------------------------------------------------------------
struct Rng
{
  uint64_t s;
  explicit Rng(uint64_t seed) : s(seed * 0x9E3779B97F4A7C15ull + 0x1234567ull) {}
  uint64_t next()
  {
    uint64_t z = (s += 0x9E3779B97F4A7C15ull);
    z          = (z ^ (z >> 30)) * 0xBF58476D1CE4E5B9ull;
    z          = (z ^ (z >> 27)) * 0x94D049BB133111EBull;
    return z ^ (z >> 31);
  }
  size_t below(size_t n) { return n ? (size_t)(next() % n) : 0; }
  char pick(const std::string &set) { return set[below(set.size())]; }
  bool coin(int pct) { return below(100) < (size_t)pct; }
};

static uint64_t hash_str(const std::string &s, uint64_t h = 1469598103934665603ull)
{
  for (unsigned char c : s)
  {
    h ^= c;
    h *= 1099511628211ull;
  }
  return h;
}

// a caller buffer: exactly sized, no NUL, poisoned and freed after the call
struct Buf
{
  char *p;
  size_t n;
  explicit Buf(const std::string &s) : p(new char[s.size() ? s.size() : 1]), n(s.size())
  {
    memcpy(p, s.data(), s.size());
  }
  nostd::string_view view() const { return nostd::string_view(p, n); }
  ~Buf()
  {
    memset(p, 'X', n ? n : 1);
    delete[] p;
  }
};

static const std::string LC   = "abcdefghijklmnopqrstuvwxyz";
static const std::string DIG  = "0123456789";
static const std::string REST = "abcdefghijklmnopqrstuvwxyz0123456789_-*/";
static std::string VCHR()  // printable, no blank , =
{
  std::string s;
  for (int c = 0x21; c <= 0x7e; ++c)
    if (c != ',' && c != '=')
      s.push_back((char)c);
  return s;
}
static const std::string NBLK = VCHR();
// illegal bytes by class: CTLNS = C0 controls that are NOT C isspace() bytes (HT LF VT FF CR at the border of a
// member are optional white space for the current code - a don't-care) + DEL; CTLALL = every C0 control + DEL
// (used mid-token only); HI = every byte 0x80..0xff
static std::string byte_range(int lo, int hi, bool skip_space)
{
  std::string s;
  for (int c = lo; c <= hi; ++c)
    if (!(skip_space && c >= 0x09 && c <= 0x0d))
      s.push_back((char)c);
  return s;
}
static const std::string CTLNS  = byte_range(0x00, 0x1f, true) + std::string(1, '\x7f');
static const std::string CTLALL = byte_range(0x00, 0x1f, false) + std::string(1, '\x7f');
static const std::string HI     = byte_range(0x80, 0xff, false);
static const std::string PUNCT = "!\"#$%&'()*+-./:;<>?@[\\]^_`{|}~";

struct Conc
{
  uint64_t inst;
  std::map<std::string, std::string> cache;       // "k:class:n" -> string
  std::map<std::string, json> key_abs, val_abs;   // reverse maps (recorder)
  // relation mode of the valid keys of one behaviour / execution (abstract keys are distinct, so related
  // strings must behave exactly like unrelated ones):
  //   0 independent (table above)
  //   1 chain    every s key is  stem + tail[0..L(n))  with L injective: any two s keys are proper prefix /
  //              extension of one another; m keys are  <an s-chain string> '@' sys[0..1+n%14)  (tenant shared
  //              by 14 ids and equal to an s key: "t" vs "t@s" vs "t@s2"); b keys extend every s key
  //   2 sibling  all s keys (and all m keys) have the same length and differ only in the last two characters
  // In modes 1/2 a Kup key is a valid key of the behaviour with one letter in upper case (equal up to case).
  int mode;
  std::string stem, ctail, sstem, stail;
  size_t ca, cb;
  explicit Conc(uint64_t i) : inst(i), mode((int)(i % 3))
  {
    Rng r(hash_str("relation", inst));
    stem  = std::string(1, r.pick(LC)) + tail(r, mode == 2 ? 3 + r.below(10) : r.below(3), REST);
    ctail = tail(r, 256, REST);
    sstem = std::string(1, r.pick(LC));
    stail = tail(r, 16, REST);
    ca    = 1 + r.below(210);
    cb    = r.below(211);
  }
  size_t chain_len(long n) const { return 1 + (size_t)((n % 211) * ca + cb) % 211; }   // injective for n < 211
  std::string chain(long n) const { return stem + ctail.substr(0, chain_len(n)); }
  std::string last2(long n) const { return std::string(1, REST[(n / 40) % 40]) + REST[n % 40]; }

  static std::string tail(Rng &r, size_t n, const std::string &set)
  {
    std::string t;
    for (size_t i = 0; i < n; ++i)
      t.push_back(r.pick(set));
    return t;
  }

  std::string key(const std::string &c, long n)
  {
    std::string id = "k:" + c + ":" + std::to_string(n);
    auto it        = cache.find(id);
    if (it != cache.end())
      return it->second;
    Rng r(hash_str(id, inst));
    std::string num = std::to_string(n);
    std::string s;
    auto simple = [&](size_t maxtail) { return std::string(1, r.pick(LC)) + num + "/" + tail(r, r.below(maxtail + 1), REST); };
    if (c == "s" && mode == 1 && n < 211)
      s = chain(n);
    else if (c == "s" && mode == 2 && n < 1600)
      s = stem + last2(n);
    else if (c == "m" && mode == 1 && n < 211 * 14)
      s = chain(n / 14 + 1) + "@" + sstem + stail.substr(0, (size_t)(n % 14));
    else if (c == "m" && mode == 2 && n < 1600)
      s = stem + "@" + sstem + stail.substr(0, 6) + last2(n);
    else if (c == "b" && mode == 1)
    {
      s = stem + ctail.substr(0, 212) + "/" + num + "/";
      s += tail(r, 256 - s.size(), REST);
    }
    else if (c == "Kup" && mode != 0)
    {
      s = key("s", 1 + (long)r.below(32));
      size_t p = 0;
      while (p < s.size() && !(s[p] >= 'a' && s[p] <= 'z'))
        ++p;
      size_t q = s.size();
      while (q > 0 && !(s[q - 1] >= 'a' && s[q - 1] <= 'z'))
        --q;
      p = (r.coin(50) && q > 0) ? q - 1 : p;       // first or last letter (the stem starts with a letter)
      s[p] = (char)(s[p] - 32);
    }
    else if (c == "s")
      s = simple(12);
    else if (c == "m")
      s = std::string(1, r.pick(LC + DIG)) + num + "/" + tail(r, r.below(11), REST) + "@" + std::string(1, r.pick(LC)) +
          tail(r, r.below(14), REST);
    else if (c == "b")
    {
      s = simple(0);
      s += tail(r, 256 - s.size(), REST);
    }
    else if (c == "bm")
    {
      s = std::string(1, r.pick(LC + DIG)) + num + "/";
      s += tail(r, 241 - s.size(), REST);
      s += "@" + std::string(1, r.pick(LC)) + tail(r, 13, REST);
    }
    else if (c == "K257")
    {
      static const size_t lens[] = {257, 257, 258, 300, 1000};
      s                          = simple(0);
      s += tail(r, lens[r.below(5)] - s.size(), REST);
    }
    else if (c == "Kup")
    {
      s        = simple(8);
      size_t p = r.below(s.size());
      if (s[p] >= 'a' && s[p] <= 'z')
        s[p] = (char)(s[p] - 32);
      else
        s.insert(p, 1, r.pick("ABCXYZ"));
    }
    else if (c == "Kempty")
      s = "";
    else if (c == "Kill")
    {
      s = simple(8);
      static const std::string ill("\x20=,.:!\"\\+%(;\t\n\x01\x7f", 17);
      s.insert(1 + r.below(s.size()), 1, r.pick(ill));
    }
    else if (c == "Kat")
    {
      switch (r.below(3))
      {
        case 0: s = "@" + simple(4); break;
        case 1: s = simple(4) + "@"; break;
        default: s = simple(3) + "@" + simple(2) + "@" + simple(2); break;
      }
    }
    else if (c == "Kmt15")
      s = simple(6) + "@" + std::string(1, r.pick(LC)) + tail(r, 14, REST);
    else if (c == "Kmt242")
    {
      s = simple(0);
      s += tail(r, 242 - s.size(), REST);
      s += "@" + std::string(1, r.pick(LC)) + tail(r, r.below(5), REST);
    }
    else if (c == "K8bit")
    {
      s = simple(8);
      s.insert(1 + r.below(s.size()), 1, r.pick(HI));
    }
    else if (c == "KctlFirst" || c == "K8bitFirst")
    {
      // the illegal byte is the FIRST byte of the key (= first byte of the list member in a header)
      s = std::string(1 + r.below(2), r.pick(c == "KctlFirst" ? CTLNS : HI)) + simple(8);
    }
    else
      s = "?unknown-key-class?";
    cache[id] = s;
    key_abs[s] = json::array({c, n});
    return s;
  }

  std::string val(const std::string &c, long n)
  {
    std::string id = "v:" + c + ":" + std::to_string(n);
    auto it        = cache.find(id);
    if (it != cache.end())
      return it->second;
    Rng r(hash_str(id, inst));
    std::string pre = "v" + std::to_string(n) + ":";
    std::string s;
    if (c == "s")
      s = pre + tail(r, r.below(13), NBLK);
    else if (c == "sp")
    {
      s = (r.coin(50) ? std::string(1 + r.below(2), ' ') : std::string()) + pre;
      size_t w = 1 + r.below(3);
      for (size_t i = 0; i < w; ++i)
        s += std::string(1 + r.below(2), ' ') + tail(r, 1 + r.below(4), NBLK);
    }
    else if (c == "b")
    {
      s = pre + tail(r, 256 - pre.size() - 1, NBLK + "  ") + std::string(1, r.pick(NBLK));
    }
    else if (c == "x")
      s = pre + tail(r, 1 + r.below(12), PUNCT);
    else if (c == "Vtrail")
      s = pre + tail(r, r.below(6), NBLK) + std::string(1 + r.below(3), ' ');
    else if (c == "Vcomma" || c == "Veq")
    {
      s = pre + tail(r, 1 + r.below(6), NBLK);
      s.insert(r.below(s.size() + 1), 1, c == "Veq" ? '=' : ',');
    }
    else if (c == "V257")
    {
      static const size_t lens[] = {257, 257, 258, 400};
      s                          = pre + tail(r, lens[r.below(4)] - pre.size(), NBLK);
    }
    else if (c == "Vempty")
      s = "";
    else if (c == "Vctl" || c == "V8bit")
    {
      s = pre + tail(r, 2 + r.below(6), NBLK);
      s.insert(pre.size() + 1 + r.below(s.size() - pre.size() - 1), 1, r.pick(c == "Vctl" ? CTLALL : HI));
    }
    else if (c == "VctlLast" || c == "V8bitLast")
    {
      // the illegal byte is the LAST byte of the value (= last byte of the list member in a header)
      s = pre + tail(r, r.below(6), NBLK) + std::string(1 + r.below(2), r.pick(c == "VctlLast" ? CTLNS : HI));
    }
    else
      s = "?unknown-value-class?";
    cache[id] = s;
    val_abs[s] = json::array({c, n});
    return s;
  }

  std::string key(const json &k) { return key(k[0].get<std::string>(), k[1].get<long>()); }
  std::string val(const json &v) { return val(v[0].get<std::string>(), v[1].get<long>()); }

  List list(const json &l)
  {
    List r;
    for (auto &m : l)
      r.push_back({key(m[0]), val(m[1])});
    return r;
  }

  std::string header(const json &toks, Rng &r)
  {
    std::string h;
    bool first = true;
    for (auto &t : toks)
    {
      if (!first)
        h += ",";
      first            = false;
      std::string kind = t["t"].get<std::string>(), ows = t["ows"].get<std::string>();
      std::string pre, post;
      if (ows == "sp")
        pre = std::string(1 + r.below(2), ' '), post = std::string(r.below(3), ' ');
      else if (ows == "tab")
        pre = "\t", post = std::string(r.below(2), '\t');
      else if (ows == "both")
        pre = " \t", post = "\t ";
      if (kind == "kv")
        h += pre + key(t["k"]) + "=" + val(t["v"]) + post;
      else if (kind == "noeq")
        h += pre + "noeq" + tail(r, r.below(5), REST) + post;
      else if (kind == "junk")  // a member made only of illegal bytes
        h += tail(r, 1 + r.below(3), r.coin(50) ? CTLNS : HI);
      else  // empty
        h += pre;
    }
    return h;
  }

  json abs_list(const List &l)
  {
    json a = json::array();
    for (auto &m : l)
    {
      auto ik = key_abs.find(m.first);
      auto iv = val_abs.find(m.second);
      a.push_back(json::array({ik == key_abs.end() ? json::array({"?", 0}) : ik->second,
                               iv == val_abs.end() ? json::array({"?", 0}) : iv->second}));
    }
    return a;
  }
};

// ---------------------------------------------------------------------------------------------
static std::string show(const std::string &s)
{
  std::string o;
  for (unsigned char c : s.substr(0, 70))
  {
    if (c >= 0x20 && c < 0x7f && c != '"' && c != '\\')
      o.push_back((char)c);
    else
    {
      char b[8];
      snprintf(b, sizeof b, "\\x%02x", c);
      o += b;
    }
  }
  if (s.size() > 70)
    o += "...(" + std::to_string(s.size()) + ")";
  return o;
}

static List entries(const TsPtr &ts)
{
  List l;
  ts->GetAllEntries([&l](nostd::string_view k, nostd::string_view v) noexcept {
    l.push_back({std::string(k.data(), k.size()), std::string(v.data(), v.size())});
    return true;
  });
  return l;
}

static std::string join(const List &l)
{
  std::string h;
  for (size_t i = 0; i < l.size(); ++i)
  {
    if (i)
      h += ",";
    h += l[i].first + "=" + l[i].second;
  }
  return h;
}

static json show_list(const List &l)
{
  json a = json::array();
  for (auto &m : l)
    a.push_back(show(m.first) + " = " + show(m.second));
  return a;
}

static bool do_get(const TsPtr &ts, const std::string &key, std::string &out)
{
  Buf k(key);
  out = "<unset>";
  return ts->Get(k.view(), out);
}

// full observation of an object against the expected list; `gets`: how many keys to Get (all if <0)
static std::string observe(const TsPtr &ts, const List &exp, Rng &r, int gets)
{
  List got = entries(ts);
  if (got != exp)
    return "GetAllEntries differs";
  if (ts->ToHeader() != join(exp))
    return "ToHeader() is not the serialisation of the list";
  if (ts->Empty() != exp.empty())
    return "Empty() wrong";
  size_t n = exp.size();
  // Get agrees with the entries also for what is NOT there: a proper prefix / a one-character extension of a
  // member's key that is not itself a member's key is not found
  for (size_t j = 0; j < n && (gets < 0 || j < 3); ++j)
  {
    const std::string &k = exp[gets < 0 ? j : r.below(n)].first;
    std::string probes[2] = {k.substr(0, k.size() - 1), k + "0"};
    for (auto &pk : probes)
    {
      bool member = false;
      for (auto &m : exp)
        member = member || m.first == pk;
      std::string v;
      if (!member && !pk.empty() && do_get(ts, pk, v))
        return "Get(" + show(pk) + ") finds a key that is not in the list: " + show(v);
    }
  }
  size_t cnt = gets < 0 ? n : std::min<size_t>(n, (size_t)gets);
  for (size_t j = 0; j < cnt; ++j)
  {
    size_t i = gets < 0 ? j : r.below(n);
    // expected: the FIRST member with that key (the most recently set one)
    std::string want;
    for (auto &m : exp)
      if (m.first == exp[i].first)
      {
        want = m.second;
        break;
      }
    std::string v;
    if (!do_get(ts, exp[i].first, v) || v != want)
      return "Get(" + show(exp[i].first) + ") wrong: " + show(v);
  }
  return "";
}

// ---------------------------------------------------------------------------------------------
static int replay(const char *path)
{
  std::ifstream in(path);
  std::string line;
  while (std::getline(in, line))
  {
    if (line.empty())
      continue;
    json b     = json::parse(line);
    long id    = b["id"].get<long>();
    uint64_t inst = b["inst"].get<uint64_t>();
    Conc cz(inst);
    Rng r(inst ^ 0xabcdef);
    std::vector<TsPtr> objs;
    std::vector<List> expl;
    json took = json::array();
    json res  = {{"beh", id}, {"ok", true}, {"stopped", -1}};
    size_t si = 0;
    for (auto &st : b["steps"])
    {
      std::string op = st["op"].get<std::string>();
      std::string why;
      json got;
      if (op == "get")
      {
        size_t o        = st["o"].get<size_t>() - 1;
        std::string key = cz.key(st["k"]);
        std::string v;
        bool found = do_get(objs[o], key, v);
        bool wantf = st["exp"][0].get<bool>();
        if (found != wantf || (found && v != cz.val(st["exp"][1])))
        {
          why = "Get(" + show(key) + ") returned " + (found ? "true " + show(v) : "false");
          got = {{"found", found}, {"value", show(v)}};
        }
        took.push_back("exp");
      }
      else
      {
        TsPtr nw;
        std::string hdr;
        if (op == "from")
        {
          hdr = cz.header(st["hdr"], r);
          Buf h(hdr);
          nw = TraceState::FromHeader(h.view());
        }
        else if (op == "rt")
        {
          hdr = objs[st["o"].get<size_t>() - 1]->ToHeader();
          Buf h(hdr);
          nw = TraceState::FromHeader(h.view());
        }
        else if (op == "set")
        {
          Buf k(cz.key(st["k"])), v(cz.val(st["v"]));
          nw = objs[st["o"].get<size_t>() - 1]->Set(k.view(), v.view());
        }
        else if (op == "del")
        {
          Buf k(cz.key(st["k"]));
          nw = objs[st["o"].get<size_t>() - 1]->Delete(k.view());
        }
        else
        {
          std::cerr << "unknown op " << op << "\n";
          return 5;
        }
        List g = entries(nw);
        int matched = -2;
        List e      = cz.list(st["exp"]);
        if (g == e)
          matched = -1;
        else
          for (size_t a = 0; a < st["alt"].size(); ++a)
            if (g == cz.list(st["alt"][a]["res"]))
            {
              matched = (int)a;
              e       = g;
              break;
            }
        if (matched == -2)
        {
          why = op + " produced a list that matches neither the expected one nor a listed alternative";
          got = {{"list", show_list(g)}, {"expected", show_list(e)}, {"header", show(hdr)}};
          if (op == "set")
            got["args"] = {show(cz.key(st["k"])), show(cz.val(st["v"]))};
          if (op == "del")
            got["args"] = {show(cz.key(st["k"]))};
        }
        else
        {
          objs.push_back(nw);
          expl.push_back(e);
          took.push_back(matched == -1 ? json("exp") : st["alt"][matched]["dev"]);
          if (matched >= 0)
            res["stopped"] = si;
        }
      }
      // immutability: every object created so far still shows exactly its own list
      if (why.empty())
        for (size_t o = 0; o < objs.size(); ++o)
        {
          std::string w = observe(objs[o], expl[o], r, o + 1 == objs.size() ? -1 : 2);
          if (!w.empty())
          {
            why = "object #" + std::to_string(o + 1) + " after step " + std::to_string(si) + " (" + op + "): " + w;
            got = {{"list", show_list(entries(objs[o]))}, {"expected", show_list(expl[o])},
                   {"header", show(objs[o]->ToHeader())}};
            break;
          }
        }
      if (!why.empty())
      {
        res["ok"]   = false;
        res["step"] = si;
        res["what"] = why;
        res["got"]  = got;
        break;
      }
      if (res["stopped"].get<long>() >= 0)
        break;  // the code took the other documented branch: the rest describes another history
      ++si;
    }
    res["took"] = took;
    res["mode"] = cz.mode;
    std::cout << res.dump() << "\n" << std::flush;
  }
  return 0;
}

// ---------------------------------------------------------------------------------------------
static int record(uint64_t seed, int nexec, int len)
{
  static const char *VK[] = {"s", "s", "s", "m", "b", "bm"};
  static const char *IK[] = {"K257", "Kup", "Kempty", "Kill", "Kat", "Kmt15", "Kmt242", "K8bit", "KctlFirst", "K8bitFirst"};
  static const char *VV[] = {"s", "s", "sp", "b", "x"};
  static const char *IV[] = {"Vtrail", "Vcomma", "Veq", "V257", "Vempty", "Vctl", "V8bit", "VctlLast", "V8bitLast"};
  static const char *HIV[] = {"Veq", "V257", "Vempty", "Vctl", "V8bit", "VctlLast", "V8bitLast"};
  for (int x = 0; x < nexec; ++x)
  {
    Rng r(seed * 1000003ull + x);
    Conc cz(r.next());
    std::cout << json({{"e", "Cfg"}, {"x", x}, {"mode", cz.mode}}).dump() << "\n";
    // key universe of this execution: 12..40 valid keys with fixed classes
    size_t nk = (x % 3 == 0) ? 40 : 12 + r.below(8);
    std::vector<json> keys;
    for (size_t i = 1; i <= nk; ++i)
      keys.push_back(json::array({VK[r.below(6)], (long)i}));
    long vcount = 0;
    // valid values come from a small pool (6 per execution) half of the time, so that a key is often Set
    // again to EXACTLY the value it already has; the other half is fresh
    std::vector<json> vpool;
    for (long i = 1; i <= 6; ++i)
      vpool.push_back(json::array({VV[r.below(5)], 5000 + i}));
    auto fresh_val = [&](bool valid) {
      if (valid && r.coin(50))
        return vpool[r.below(vpool.size())];
      ++vcount;
      return json::array({valid ? VV[r.below(5)] : IV[r.below(9)], 1000 + vcount});
    };
    std::vector<TsPtr> objs;
    auto obs = [&](size_t o) {
      List l    = entries(objs[o]);
      bool canon = objs[o]->ToHeader() == join(l) && objs[o]->Empty() == l.empty();
      std::cout << json({{"e", "Obs"}, {"o", o + 1}, {"list", cz.abs_list(l)}, {"canon", canon}}).dump() << "\n";
    };
    for (int s = 0; s < len; ++s)
    {
      size_t kind = r.below(100);
      if (objs.empty() || kind < 6)
      {
        // FromHeader of a generated header: distinct keys, sometimes mutated
        static const size_t sizes[] = {0, 1, 2, 5, 12, 30, 31, 32, 32, 33, 36};
        size_t n                    = std::min(sizes[r.below(11)], nk);
        size_t off                  = r.below(nk);
        json toks                   = json::array();
        for (size_t i = 0; i < n; ++i)
          toks.push_back({{"t", "kv"}, {"k", keys[(off + i) % nk]}, {"v", fresh_val(true)}, {"ows", "none"}});
        size_t mut = r.below(10);
        if (mut == 0 && n)
          toks[r.below(n)]["ows"] = r.coin(50) ? "sp" : (r.coin(50) ? "tab" : "both");
        else if (mut == 1)
          toks.insert(toks.begin() + r.below(n + 1),
                      json({{"t", "empty"}, {"k", {"none", 0}}, {"v", {"none", 0}}, {"ows", r.coin(50) ? "none" : "sp"}}));
        else if (mut == 2 && n)
          toks[r.below(n)] = {{"t", r.coin(50) ? "noeq" : "junk"}, {"k", {"none", 0}}, {"v", {"none", 0}}, {"ows", "none"}};
        else if (mut == 5)
          toks.insert(toks.begin() + r.below(n + 1), json({{"t", "junk"}, {"k", {"none", 0}}, {"v", {"none", 0}}, {"ows", "none"}}));
        else if (mut == 3 && n)
          toks[r.below(n)]["k"] = json::array({IK[r.below(10)], 900 + s});
        else if (mut == 4 && n)
          toks[r.below(n)]["v"] = json::array({HIV[r.below(7)], 900 + s});
        std::string hdr = cz.header(toks, r);
        TsPtr nw;
        {
          Buf h(hdr);
          nw = TraceState::FromHeader(h.view());
        }
        objs.push_back(nw);
        std::cout << json({{"e", "From"}, {"hdr", toks}, {"res", cz.abs_list(entries(nw))}}).dump() << "\n";
        continue;
      }
      // source object: mostly a recent one
      size_t o = r.coin(70) ? objs.size() - 1 - r.below(std::min<size_t>(3, objs.size())) : r.below(objs.size());
      List cur = entries(objs[o]);
      auto some_key = [&](int pct_existing) -> json {
        if (!cur.empty() && r.coin(pct_existing))
        {
          auto it = cz.key_abs.find(cur[r.below(cur.size())].first);
          if (it != cz.key_abs.end())
            return it->second;
        }
        return keys[r.below(nk)];
      };
      if (kind < 55)
      {
        bool badk = r.coin(5), badv = r.coin(5);
        json k = badk ? json::array({IK[r.below(10)], 900 + s}) : some_key(45);
        json v = fresh_val(!badv);
        if (!badk && !badv && r.coin(25))
        {
          // re-Set with the value the key has right now (same bytes), wherever the member stands
          std::string curv;
          if (do_get(objs[o], cz.key(k), curv))
          {
            auto it = cz.val_abs.find(curv);
            if (it != cz.val_abs.end())
              v = it->second;
          }
        }
        TsPtr nw;
        {
          Buf kb(cz.key(k)), vb(cz.val(v));
          nw = objs[o]->Set(kb.view(), vb.view());
        }
        objs.push_back(nw);
        std::cout << json({{"e", "Set"}, {"o", o + 1}, {"k", k}, {"v", v}, {"res", cz.abs_list(entries(nw))}}).dump()
                  << "\n";
      }
      else if (kind < 72)
      {
        json k = r.coin(6) ? json::array({IK[r.below(10)], 900 + s}) : some_key(70);
        TsPtr nw;
        {
          Buf kb(cz.key(k));
          nw = objs[o]->Delete(kb.view());
        }
        objs.push_back(nw);
        std::cout << json({{"e", "Del"}, {"o", o + 1}, {"k", k}, {"res", cz.abs_list(entries(nw))}}).dump() << "\n";
      }
      else if (kind < 90)
      {
        json k = r.coin(8) ? json::array({IK[r.below(10)], 900 + s}) : some_key(70);
        std::string v;
        bool found = do_get(objs[o], cz.key(k), v);
        json av    = json::array({"none", 0});
        if (found)
        {
          auto it = cz.val_abs.find(v);
          av      = it == cz.val_abs.end() ? json::array({"?", 0}) : it->second;
        }
        std::cout << json({{"e", "Get"}, {"o", o + 1}, {"k", k}, {"found", found}, {"val", av}}).dump() << "\n";
      }
      else
      {
        std::string hdr = objs[o]->ToHeader();
        TsPtr nw;
        {
          Buf h(hdr);
          nw = TraceState::FromHeader(h.view());
        }
        objs.push_back(nw);
        std::cout << json({{"e", "Rt"}, {"o", o + 1}, {"res", cz.abs_list(entries(nw))}}).dump() << "\n";
      }
      // immutability: the source and one random older object still show their lists
      obs(o);
      if (objs.size() > 2 && r.coin(50))
        obs(r.below(objs.size() - 1));
    }
    std::cout << json({{"e", "End"}, {"objects", objs.size()}}).dump() << "\n";
  }
  return 0;
}

int main(int argc, char **argv)
{
  if (argc >= 3 && std::string(argv[1]) == "replay")
    return replay(argv[2]);
  if (argc >= 5 && std::string(argv[1]) == "record")
    return record(strtoull(argv[2], nullptr, 10), atoi(argv[3]), atoi(argv[4]));
  std::cerr << "usage: c14_tracestate replay <file> | record <seed> <nexec> <len>\n";
  return 5;
}
