// C20 string_view replayer: behaviours of spec/NostdStringView.tla on nostd::string_view (and on
// std::string_view as a cross-check of the spec).
//
// Concretisation table (trusted):
//   alphabet 0,1,2      -> bytes cm[0] = '\0' and cm[1] < cm[2] AS UNSIGNED CHAR, one of
//                          ('a','b') ('\x01','\xff') ('\x7f','\x80') ('A','a') ('\x02','\x7f')   (seeded)
//   a string s          -> (seeded) an exact-size heap block (no terminator: ASan sees any over-read),
//                          a window inside a larger block whose neighbours are alphabet bytes
//                          (an over-read changes the RESULT), a std::string, or -- when empty --
//                          (nullptr, 0) / a default constructed view
//   position/count p    -> p for p <= MaxLen+1; BIG (99) -> every one of npos, npos-1, 2^63, 2^63-1,
//                          2^32+1, 2^31 (all must behave alike)
//   result 99 (NPOS)    -> exactly string_view::npos
// Projection (all through the public interface): bytes (data/size, begin/end, operator[], conversion
// to std::string), size, empty, compare sign both ways, == != < >, hash agreement, find(ch,pos) table,
// substr(pos,n) table ([99] = throws std::out_of_range), compare(pos,n,v) table.
#include "c20_common.h"

#include <stdexcept>
#include <string_view>

#include "opentelemetry/nostd/string_view.h"

namespace nostd = opentelemetry::nostd;
using namespace c20;

namespace
{
const uint64_t kBig[] = {~0ull, ~0ull - 1, 1ull << 63, (1ull << 63) - 1, (1ull << 32) + 1, 1ull << 31};
const int kNBig       = 6;
const unsigned char kMaps[][3] = {{0, 'a', 'b'}, {0, 0x01, 0xff}, {0, 0x7f, 0x80}, {0, 'A', 'a'}, {0, 0x02, 0x7f}};

struct Buf
{
  char *block = nullptr;
  std::string str;
  const char *p = nullptr;
  size_t n      = 0;
  int mode      = 0;
  ~Buf() { ::free(block); }
};

struct Conc
{
  unsigned char cm[3];
  int abs_of(unsigned char ch) const
  {
    for (int i = 0; i < 3; ++i)
      if (cm[i] == ch)
        return i;
    return 50;
  }
};

void fill(Buf &b, const json &s, const Conc &cc, Rng &rng)
{
  b.n    = s.size();
  b.mode = rng.pick(b.n == 0 ? 4 : 3);
  std::string bytes;
  for (auto &x : s)
    bytes.push_back(static_cast<char>(cc.cm[x.get<int>()]));
  if (b.mode == 0)
  {
    b.block = static_cast<char *>(::malloc(b.n ? b.n : 1));
    memcpy(b.block, bytes.data(), b.n);
    b.p = b.block;
  }
  else if (b.mode == 1)
  {
    size_t pre = 1 + static_cast<size_t>(rng.pick(3)), post = 4;
    b.block = static_cast<char *>(::malloc(pre + b.n + post));
    for (size_t i = 0; i < pre + b.n + post; ++i)
      b.block[i] = static_cast<char>(cc.cm[(i + static_cast<size_t>(rng.pick(3))) % 3]);
    // the byte right after the window is never NUL in this mode (strlen/strchr based code runs on)
    memcpy(b.block + pre, bytes.data(), b.n);
    b.block[pre + b.n] = static_cast<char>(cc.cm[1 + rng.pick(2)]);
    b.p                = b.block + pre;
  }
  else if (b.mode == 2)
  {
    b.str = bytes;
    b.p   = b.str.data();
  }
  else
  {
    b.p = nullptr;
  }
}

template <class SV>
SV make(const Buf &b)
{
  if (b.mode == 2)
    return SV(b.str);
  if (b.mode == 3)
    return b.n == 0 && b.p == nullptr ? SV() : SV(b.p, b.n);
  return SV(b.p, b.n);
}

template <class SV>
json bytes_of(const SV &v, const Conc &cc)
{
  // a view longer than anything the model contains is reported by its size, never read
  if (v.size() > 16)
    return "a view of size " + std::to_string(v.size());
  json a = json::array();
  for (size_t i = 0; i < v.size(); ++i)
    a.push_back(cc.abs_of(static_cast<unsigned char>(v.data()[i])));
  return a;
}

const char *sgn(int x)
{
  return x < 0 ? "lt" : (x > 0 ? "gt" : "eq");
}
const char *tf(bool b)
{
  return b ? "T" : "F";
}

template <class SV>
struct SvWorld
{
  static constexpr bool is_nostd = std::is_same<SV, nostd::string_view>::value;
  Conc cc;
  int maxlen;
  int bigsel = 0;
  std::vector<uint64_t> posv;   // concrete values for the abstract positions (without BIG)

  // result of f for an abstract position list: BIG expands to every big value, which must all agree
  json observe(SV a, SV b, std::string &incons)
  {
    json o;
    o["a"]     = bytes_of(a, cc);
    o["b"]     = bytes_of(b, cc);
    o["size"]  = a.size();
    o["empty"] = tf(a.empty());
    if (a.size() > 16 || b.size() > 16)
      return o;   // the size is already wrong; nothing else can be observed safely
    // the same bytes through the other accessors
    {
      json it = json::array();
      for (auto p = a.begin(); p != a.end(); ++p)
        it.push_back(cc.abs_of(static_cast<unsigned char>(*p)));
      json ix = json::array();
      for (size_t i = 0; i < a.size(); ++i)
        ix.push_back(cc.abs_of(static_cast<unsigned char>(a[i])));
      std::string s = static_cast<std::string>(a);
      json cv       = json::array();
      for (char ch : s)
        cv.push_back(cc.abs_of(static_cast<unsigned char>(ch)));
      if (it != o["a"] || ix != o["a"] || cv != o["a"] || a.length() != a.size())
        o["a"] = json({{"data", o["a"]}, {"iter", it}, {"index", ix}, {"string", cv}, {"length", a.length()}});
    }
    o["cmp"]  = sgn(a.compare(b));
    o["rcmp"] = sgn(b.compare(a));
    o["eq"]   = tf(a == b);
    o["ne"]   = tf(a != b);
    o["lt"]   = tf(a < b);
    o["gt"]   = tf(a > b);
    if (is_nostd)
    {
      // the mixed overloads nostd::string_view offers must agree with the view/view ones
      std::string bs(b.data() ? b.data() : "", b.size());
      bool e1 = a == bs, e2 = bs == a, n1 = a != bs, n2 = bs != a;
      if (e1 != (a == b) || e2 != (a == b) || n1 != (a != b) || n2 != (a != b))
        o["eq"] = "mixed std::string overload disagrees";
      if (bs.find('\0') == std::string::npos)
      {
        bool c1 = a == bs.c_str(), c2 = bs.c_str() == a, c3 = a != bs.c_str(), c4 = bs.c_str() != a;
        if (c1 != (a == b) || c2 != (a == b) || c3 != (a != b) || c4 != (a != b) ||
            std::string(sgn(a.compare(bs.c_str()))) != sgn(a.compare(b)))
          o["eq"] = "mixed const char* overload disagrees";
      }
    }
    o["heq"] = std::hash<SV>{}(a) == std::hash<SV>{}(b) ? "must" : "differ";
    size_t np = static_cast<size_t>(maxlen) + 3;
    auto each_pos = [&](size_t idx, const std::function<json(uint64_t)> &f) -> json {
      if (idx + 1 < np)
        return f(posv[idx]);
      // three of the six representatives per concretisation (npos always among them)
      json first;
      for (int k = 0; k < kNBig; ++k)
      {
        if (k != 0 && (k + bigsel) % 2)
          continue;
        json r = f(kBig[k]);
        if (k == 0)
          first = r;
        else if (r != first)
          incons = "positions/counts of the class BIG behave differently";
      }
      return first;
    };
    json find = json::array();
    for (int ch = 0; ch < 3; ++ch)
    {
      json row = json::array();
      for (size_t p = 0; p < np; ++p)
        row.push_back(each_pos(p, [&](uint64_t pos) -> json {
          size_t r = a.find(static_cast<char>(cc.cm[ch]), static_cast<size_t>(pos));
          if (r == SV::npos)
            return 99;
          return r < 90 ? json(r) : json(98);
        }));
      find.push_back(row);
    }
    o["find"] = find;
    // find with the default position
    for (int ch = 0; ch < 3; ++ch)
    {
      size_t r = a.find(static_cast<char>(cc.cm[ch]));
      json e   = r == SV::npos ? json(99) : json(r);
      if (e != o["find"][ch][0])
        o["find"][ch][0] = "find(ch) differs from find(ch, 0)";
    }
    json sub = json::array(), cmp3 = json::array();
    for (size_t p = 0; p < np; ++p)
    {
      json srow = json::array(), crow = json::array();
      for (size_t n = 0; n < np; ++n)
      {
        srow.push_back(each_pos(p, [&](uint64_t pos) -> json {
          return each_pos(n, [&](uint64_t cnt) -> json {
            try
            {
              SV r = a.substr(static_cast<size_t>(pos), static_cast<size_t>(cnt));
              return bytes_of(r, cc);
            }
            catch (const std::out_of_range &)
            {
              return json::array({99});
            }
            catch (...)
            {
              return "throws another exception type";
            }
          });
        }));
        crow.push_back(each_pos(p, [&](uint64_t pos) -> json {
          return each_pos(n, [&](uint64_t cnt) -> json {
            try
            {
              return sgn(a.compare(static_cast<size_t>(pos), static_cast<size_t>(cnt), b));
            }
            catch (const std::out_of_range &)
            {
              return "throws";
            }
            catch (...)
            {
              return "throws another exception type";
            }
          });
        }));
      }
      sub.push_back(srow);
      cmp3.push_back(crow);
    }
    o["sub"]  = sub;
    o["cmp3"] = cmp3;
    // substr(pos) with the default count == substr(pos, npos)
    for (size_t p = 0; p + 1 < np; ++p)
    {
      json r;
      try
      {
        r = bytes_of(a.substr(static_cast<size_t>(posv[p])), cc);
      }
      catch (const std::out_of_range &)
      {
        r = json::array({99});
      }
      if (r != o["sub"][p][np - 1])
        o["sub"][p][np - 1] = "substr(pos) differs from substr(pos, npos)";
    }
    return o;
  }
};

bool sv_wild(const json &e)
{
  return e.is_string() && e == "any";
}

template <class SV>
void run_world(const Case &c, int world)
{
  const json &beh = *c.beh;
  const json &sts = beh["steps"];
  Rng rng(c.seed);
  SvWorld<SV> w;
  w.maxlen = beh["cfg"]["maxlen"];
  w.bigsel = rng.pick(2);
  for (int i = 0; i <= w.maxlen + 1; ++i)
    w.posv.push_back(static_cast<uint64_t>(i));
  const unsigned char *m = kMaps[rng.pick(5)];
  memcpy(w.cc.cm, m, 3);
  g_shm->phase = world;
  Buf ba, bb;
  fill(ba, sts[0]["exp"]["a"], w.cc, rng);
  fill(bb, sts[0]["exp"]["b"], w.cc, rng);
  SV a = make<SV>(ba), b = make<SV>(bb);
  for (size_t k = 0; k < sts.size(); ++k)
  {
    const json &st = sts[k];
    if (world == 0)
      g_shm->step = static_cast<long>(k);
    std::string op = st["op"];
    json extra;
    if (op == "substr")
    {
      int ap = st["pos"], an = st["n"];
      uint64_t pos = ap == 99 ? kBig[rng.pick(kNBig)] : static_cast<uint64_t>(ap);
      uint64_t cnt = an == 99 ? kBig[rng.pick(kNBig)] : static_cast<uint64_t>(an);
      std::string thr = "F";
      try
      {
        a = a.substr(static_cast<size_t>(pos), static_cast<size_t>(cnt));
      }
      catch (const std::out_of_range &)
      {
        thr = "T";
      }
      catch (...)
      {
        thr = "other exception type";
      }
      if (thr != st["throws"].get<std::string>())
      {
        g_shm->findings++;
          g_shm->bad++;
        emit({{"r", world == 0 ? "mismatch" : "stdspec"}, {"m", c.m}, {"id", c.id}, {"inst", c.inst},
              {"step", static_cast<long>(k)}, {"op", op}, {"path", "/throws"}, {"exp", st["throws"]}, {"obs", thr},
              {"what", std::string(world == 0 ? "nostd" : "std") + ": substr(" + std::to_string(pos) + "," +
                           std::to_string(cnt) + ") on a view of size " + std::to_string(a.size()) +
                           (thr == "T" ? " throws" : " does not throw std::out_of_range")}});
        return;
      }
    }
    else if (op == "swap")
    {
      std::swap(a, b);
    }
    else if (op != "init")
    {
      harness_error(c, static_cast<int>(k), "unknown op " + op);
      return;
    }
    g_shm->steps++;
    std::string incons;
    json obs = w.observe(a, b, incons);
    if (!incons.empty())
      obs["homogeneity"] = incons;
    json stx = st;
    if (!incons.empty())
      stx["exp"]["homogeneity"] = "";
    Verdict v = judge(c, static_cast<int>(k), stx, obs, world == 0 ? "nostd" : "std", sv_wild);
    if (v != Verdict::Ok)
      return;
  }
  if (world == 0)
    g_shm->step = -1;
}

void replay_sv(const Case &c)
{
  long before = g_shm->findings;
  run_world<nostd::string_view>(c, 0);
  if (g_shm->findings != before)
    return;
  run_world<std::string_view>(c, 1);
  g_shm->phase = 0;
}

Registrar reg("sv", replay_sv);
}  // namespace
