// Shared by harness/c06_*.cc and harness/c08_*.cc (properties C06, C08).
//
// CONCRETISATION TABLE (part of the trusted base).  The specs (spec/AttrSetKey.tla,
// spec/MetricsSync.tla, spec/MetricsSyncTrace.tla) talk about abstract keys k = 1, 2, ... and
// abstract values v = 1, 2, ...; an attribute set is a sequence of (k, v) pairs as listed by the
// caller.  They become concrete as follows (kt / vf are chosen per execution from the seed):
//
//   key table kt   key k                                    why
//   0              "k<k>"                                   plain
//   1              http.method, http.route, net.peer.name,  realistic names, sort order differs from
//                  a, service.name, z.last, B, b            id order; >8: "attr.<k>"
//   2              "a" repeated k times  (k <= 6)           one key is a prefix of the other;
//                                                           >6: "a<k>"
//   3              Key, key, KEY, k\xc3\xa9y, "k y", k=y    case / UTF-8 / separators; >6: "K<k>"
//   Every key is handed over as a string_view into its own heap buffer (exact length + a NUL:
//   FilteringAttributesProcessor::isPresent reads key.data() as a C string, DESIGN section 4 F12 --
//   that defect belongs to C19 and is kept out of C06/C08 by the NUL).
//
//   value family vf   value v
//   0   nostd::string_view  "v<v>"   (own heap buffer, exact length, NOT NUL-terminated)
//   1   const char *        "s<v>"
//   2   int64_t             1000 + v
//   3   int32_t             v
//   4   double              v + 0.5
//   5   bool                v = 1 -> false, v = 2 -> true   (v > 2: as family 2)
//   6   uint32_t            v
//   7   span<const int64_t>       {v, v + 1}
//   8   span<const string_view>   {"x", "v<v>"}
//   9   span<const bool>          {true, false, ...} length v (v <= 6; else as family 2)
//   10  mixed: family (v mod 9) for every v   (one key sees values of different types)
//   11  "one value, several representations": v = 1 -> double zero, +0.0 or -0.0 drawn per
//       occurrence (equal as values: -0.0 == +0.0, so the SAME series); v = 2 ->
//       span<const double>{+-0.0, 2.0} (sign per occurrence); v >= 3 -> double (v - 1).0
//   12  "easily conflated, but different values" (typed key-to-value maps: a bool is not an int,
//       a number is not its spelling, an empty string is not a missing key): 1 -> bool true,
//       2 -> int32 1, 3 -> "1", 4 -> "true", 5 -> "" (empty string), 6 -> bool false, 7 -> int32 0,
//       8 -> "0", 9 -> "false"; v >= 10: as family 2.  Must all be DIFFERENT series.
//   Representation choices that must not matter are drawn per occurrence from the execution's
//   seed: family 0 hands the string over as string_view or as const char *, families 11 the sign
//   of zero; every array / string lives in a fresh buffer on every call.
//   Deliberately never generated (the statement does not decide them): int32 n vs int64 n vs
//   uint32 n vs double n.0 for the same key in one history (same number, different C++ type), NaN.
//   The encodings of families 0-9 are pairwise disjoint, so a delivered OwnedAttributeValue decodes
//   to at most one abstract value whatever family produced it (family 10); families 11 and 12 have
//   their own decoders; anything else decodes to 0 ("invented").
//
//   Every buffer handed to the SDK is overwritten with '#' / garbage and freed right after the
//   call returns (the SDK must have copied what it keeps).
//
//   amounts: an abstract amount n is recorded as n * M.  double instruments: M in {1, 0.25, 1024}
//   (all partial sums exactly representable).  long instruments (uint64 counter / int64 up-down
//   counter): M = 1, or a HUGE ODD multiplier -- 2^53 + 1 when the history's total |amount| T
//   allows (T * M < 2^62), else the largest odd M with T * M < 2^62 -- so that every sum is exact in
//   int64 but almost never representable as a double (n * (2^53 + 1) for every n >= 1), with mixed
//   signs and totals returning to small values for up-down counters; or M = 3.  The projection
//   reduces a delivered value V to V / M when M divides V exactly; anything else (a rounded sum) is
//   logged as -2^30 (never acceptable).  The expected small integers come from the monitor.
#pragma once

#include <cmath>
#include <cstdint>
#include <cstring>
#include <map>
#include <memory>
#include <string>
#include <vector>

#include <nlohmann/json.hpp>

#include "opentelemetry/common/attribute_value.h"
#include "opentelemetry/common/key_value_iterable.h"
#include "opentelemetry/nostd/span.h"
#include "opentelemetry/nostd/string_view.h"
#include "opentelemetry/sdk/common/attribute_utils.h"
#include "opentelemetry/sdk/metrics/state/attributes_hashmap.h"

namespace c06
{
using json = nlohmann::json;
namespace nostd = opentelemetry::nostd;
using opentelemetry::common::AttributeValue;
using opentelemetry::sdk::common::OwnedAttributeValue;

struct Rng
{
  uint64_t s;
  explicit Rng(uint64_t seed) : s(seed * 0x9E3779B97F4A7C15ULL + 0x1234567ULL) {}
  uint64_t next()
  {
    s ^= s << 13;
    s ^= s >> 7;
    s ^= s << 17;
    return s;
  }
  int below(int n) { return (int)(next() % (uint64_t)n); }
};

inline std::string key_name(int kt, int k)
{
  static const char *t1[] = {"http.method", "http.route", "net.peer.name", "a",
                             "service.name", "z.last",    "B",             "b"};
  static const char *t3[] = {"Key", "key", "KEY", "k\xc3\xa9y", "k y", "k=y"};
  switch (kt)
  {
    case 1:
      return k >= 1 && k <= 8 ? std::string(t1[k - 1]) : "attr." + std::to_string(k);
    case 2:
      return k >= 1 && k <= 6 ? std::string((size_t)k, 'a') : "a" + std::to_string(k);
    case 3:
      return k >= 1 && k <= 6 ? std::string(t3[k - 1]) : "K" + std::to_string(k);
    default:
      return "k" + std::to_string(k);
  }
}

inline int key_id(int kt, const std::string &name, int max_k)
{
  for (int k = 1; k <= max_k; ++k)
    if (key_name(kt, k) == name)
      return k;
  return 0;
}

inline int family_of(int vf, int v)
{
  int f = vf == 10 ? (v % 9) : vf;
  if (f == 5 && v > 2)
    f = 2;
  if (f == 9 && v > 6)
    f = 2;
  if (f == 12 && v > 9)
    f = 2;
  return f;
}

static const int kNumValueFamilies = 13;

// Owns every buffer of one Add() call; scribbles and frees them afterwards.
struct CallerAttrs
{
  struct Buf
  {
    char *p;
    size_t n;
  };
  std::vector<Buf> bufs;
  std::vector<std::pair<nostd::string_view, AttributeValue>> kvs;
  Rng *rep = nullptr;  // draws the representation choices that must not matter (may be null)
  bool coin() { return rep && (rep->next() & 1); }

  char *alloc(size_t n)
  {
    char *p = (char *)malloc(n ? n : 1);
    bufs.push_back({p, n});
    return p;
  }
  nostd::string_view sv(const std::string &s, bool nul)
  {
    char *p = alloc(s.size() + (nul ? 1 : 0));
    memcpy(p, s.data(), s.size());
    if (nul)
      p[s.size()] = 0;
    return nostd::string_view(p, s.size());
  }
  void add(int kt, int vf, int k, int v)
  {
    nostd::string_view key = sv(key_name(kt, k), true);
    AttributeValue val;
    switch (family_of(vf, v))
    {
      case 0:
        if (coin())
          val = (const char *)sv("v" + std::to_string(v), true).data();
        else
          val = sv("v" + std::to_string(v), false);
        break;
      case 1:
        val = (const char *)sv("s" + std::to_string(v), true).data();
        break;
      case 2:
        val = (int64_t)(1000 + v);
        break;
      case 3:
        val = (int32_t)v;
        break;
      case 4:
        val = (double)v + 0.5;
        break;
      case 5:
        val = (bool)(v == 2);
        break;
      case 6:
        val = (uint32_t)v;
        break;
      case 7: {
        int64_t *a = (int64_t *)alloc(2 * sizeof(int64_t));
        a[0]       = v;
        a[1]       = v + 1;
        val        = nostd::span<const int64_t>(a, 2);
        break;
      }
      case 8: {
        nostd::string_view *a = (nostd::string_view *)alloc(2 * sizeof(nostd::string_view));
        new (&a[0]) nostd::string_view(sv("x", false));
        new (&a[1]) nostd::string_view(sv("v" + std::to_string(v), false));
        val = nostd::span<const nostd::string_view>(a, 2);
        break;
      }
      case 9: {
        bool *a = (bool *)alloc((size_t)v * sizeof(bool));
        for (int i = 0; i < v; ++i)
          a[i] = (i % 2 == 0);
        val = nostd::span<const bool>(a, (size_t)v);
        break;
      }
      case 11: {
        double zero = coin() ? -0.0 : 0.0;
        if (v == 1)
          val = zero;
        else if (v == 2)
        {
          double *a = (double *)alloc(2 * sizeof(double));
          a[0]      = zero;
          a[1]      = 2.0;
          val       = nostd::span<const double>(a, 2);
        }
        else
          val = (double)(v - 1);
        break;
      }
      case 12: {
        static const char *spell[] = {"", "", "", "1", "true", "", "", "", "0", "false"};
        if (v == 1 || v == 6)
          val = (bool)(v == 1);
        else if (v == 2 || v == 7)
          val = (int32_t)(v == 2 ? 1 : 0);
        else
          val = sv(spell[v], false);
        break;
      }
    }
    kvs.emplace_back(key, val);
  }
  void scribble_and_free()
  {
    for (auto &b : bufs)
    {
      memset(b.p, '#', b.n);
      free(b.p);
    }
    bufs.clear();
    kvs.clear();
  }
  ~CallerAttrs() { scribble_and_free(); }
};

// The caller's attribute list, iterated in the caller's order (duplicates included).
class SeqIterable final : public opentelemetry::common::KeyValueIterable
{
public:
  explicit SeqIterable(const std::vector<std::pair<nostd::string_view, AttributeValue>> &kvs)
      : kvs_(kvs)
  {}
  bool ForEachKeyValue(
      nostd::function_ref<bool(nostd::string_view, AttributeValue)> callback) const noexcept override
  {
    for (auto &kv : kvs_)
      if (!callback(kv.first, kv.second))
        return false;
    return true;
  }
  size_t size() const noexcept override { return kvs_.size(); }

private:
  const std::vector<std::pair<nostd::string_view, AttributeValue>> &kvs_;
};

inline int parse_tagged(const std::string &s, char tag)
{
  if (s.size() < 2 || s[0] != tag)
    return 0;
  int n = 0;
  for (size_t i = 1; i < s.size(); ++i)
  {
    if (s[i] < '0' || s[i] > '9')
      return 0;
    n = n * 10 + (s[i] - '0');
    if (n > 100000000)
      return 0;
  }
  return s == std::string(1, tag) + std::to_string(n) ? n : 0;
}

inline int value_id_generic(const OwnedAttributeValue &ov);

// Decode a delivered (owned) value to its abstract id under value family vf; 0 when it is not in
// the table.
inline int value_id(const OwnedAttributeValue &ov, int vf)
{
  if (vf == 11)
  {
    if (auto p = nostd::get_if<double>(&ov))
    {
      if (*p == 0.0)
        return 1;
      return *p >= 2 && *p < 1e8 && *p == std::floor(*p) ? (int)*p + 1 : 0;
    }
    if (auto p = nostd::get_if<std::vector<double>>(&ov))
      return p->size() == 2 && (*p)[0] == 0.0 && (*p)[1] == 2.0 ? 2 : 0;
    return 0;
  }
  if (vf == 12)
  {
    if (auto p = nostd::get_if<bool>(&ov))
      return *p ? 1 : 6;
    if (auto p = nostd::get_if<int32_t>(&ov))
      return *p == 1 ? 2 : (*p == 0 ? 7 : 0);
    if (auto p = nostd::get_if<std::string>(&ov))
      return *p == "1" ? 3 : *p == "true" ? 4 : *p == "" ? 5 : *p == "0" ? 8 : *p == "false" ? 9 : 0;
    if (auto p = nostd::get_if<int64_t>(&ov))
      return *p >= 1010 && *p < 100000000 ? (int)(*p - 1000) : 0;
    return 0;
  }
  return value_id_generic(ov);
}

inline int value_id_generic(const OwnedAttributeValue &ov)
{
  if (auto p = nostd::get_if<std::string>(&ov))
  {
    int a = parse_tagged(*p, 'v');
    return a ? a : parse_tagged(*p, 's');
  }
  if (auto p = nostd::get_if<int64_t>(&ov))
    return *p > 1000 && *p < 100000000 ? (int)(*p - 1000) : 0;
  if (auto p = nostd::get_if<int32_t>(&ov))
    return *p >= 1 ? *p : 0;
  if (auto p = nostd::get_if<double>(&ov))
  {
    double d = *p - 0.5;
    return d >= 1 && d < 1e8 && d == std::floor(d) ? (int)d : 0;
  }
  if (auto p = nostd::get_if<bool>(&ov))
    return *p ? 2 : 1;
  if (auto p = nostd::get_if<uint32_t>(&ov))
    return *p >= 1 && *p < 100000000u ? (int)*p : 0;
  if (auto p = nostd::get_if<std::vector<int64_t>>(&ov))
    return p->size() == 2 && (*p)[0] >= 1 && (*p)[0] < 100000000 && (*p)[1] == (*p)[0] + 1
               ? (int)(*p)[0]
               : 0;
  if (auto p = nostd::get_if<std::vector<std::string>>(&ov))
    return p->size() == 2 && (*p)[0] == "x" ? parse_tagged((*p)[1], 'v') : 0;
  if (auto p = nostd::get_if<std::vector<bool>>(&ov))
  {
    for (size_t i = 0; i < p->size(); ++i)
      if ((*p)[i] != (i % 2 == 0))
        return 0;
    return p->size() >= 1 && p->size() <= 6 ? (int)p->size() : 0;
  }
  return 0;
}

// Abstract a delivered attribute map: [[k, v], ...] in the map's own order; *ovf is set when the
// map is exactly {otel.metrics.overflow = true}.  Unknown keys / values become 0.
template <class Map>
inline json abstract_attrs(const Map &m, int kt, int vf, int max_k, bool *ovf)
{
  *ovf = false;
  if (m.size() == 1)
  {
    auto it = m.begin();
    if (it->first == opentelemetry::sdk::metrics::kAttributesLimitOverflowKey)
    {
      auto b = nostd::get_if<bool>(&it->second);
      if (b && *b)
      {
        *ovf = true;
        return json::array();
      }
    }
  }
  json a = json::array();
  for (auto &kv : m)
    a.push_back(json::array({key_id(kt, kv.first, max_k), value_id(kv.second, vf)}));
  return a;
}

static const long kGarbage = -(1L << 30);
}  // namespace c06
